package main

import "regexp"

// C08 — the emitted lexer is valid stand-alone Go encoding exactly the token automaton.
// C19 — compiled, the emitted lexer tokenises exactly as the token automaton says.

func init() {
	register(&PropSpec{
		ID: "C08", Level: "other",
		Pkgs:    []string{"./internal/generate/golang"},
		Prepare: prepareAll,
		Select: []Selector{
			{Units: `generate/golang\.(groupDFAStates|formatInts|formatRunes)$`},
			{Units: `generate/golang\.generator\.generateLexer(\$1)?$`},
		},
		Extra: func(c *CheckCtx) error {
			return checkEmittedInstances(c, "C08 instance", true, []emitSel{
				{unit: regexp.MustCompile(`\.advanceDFA$`)},
				{unit: regexp.MustCompile(`\.Lexer\.evalDFA$`), names: regexp.MustCompile(`#(post\[terminal\]|vacuity|pre|nil|bounds)`)},
			})
		},
		Explain: "Generator side, proved for all specifications: see the obligations of groupDFAStates / generateLexer / formatInts / formatRunes (the template model handed to the lexer template is the automaton Spec.DFA returned). Template side, BOUNDED over specifications (the corpus in coverage.bounded) and complete within each: the package the real generator emits for each corpus specification is type-checked on its own (go/types, standard library only) and its advanceDFA / evalDFA are proved equal to the automaton and accepting-state map the generator computed for the same Spec value: the same next state for every (state, character) pair, the owning terminal for every accepting state, ERR for every other state.",
		Trusted: []string{"text/template executes the template as documented (the template text itself is outside the VC generator's reach: checked only through what it emits for the corpus)", "the emit driver (/verif/harness/emit_driver_test.go.txt) dumps the automaton of the same Spec value that Generate renders"},
	})
	register(&PropSpec{
		ID: "C19", Level: "other",
		Pkgs:    []string{"./internal/generate/golang"},
		Prepare: prepareAll,
		Select: []Selector{
			{Units: `generate/golang\.generator\.renderTemplate$`, Kinds: `^(post|vacuity)$`},
		},
		Extra: func(c *CheckCtx) error {
			if err := checkEmittedInstances(c, "C19 instance", false, []emitSel{
				{unit: regexp.MustCompile(`\.advanceDFA$`)},
				{unit: regexp.MustCompile(`\.Lexer\.evalDFA$`)},
				{unit: regexp.MustCompile(`\.Lexer\.NextToken$`)},
			}); err != nil {
				return err
			}
			return conformEmittedReader(c, nil)
		},
		Explain: "BOUNDED over specifications (the corpus in coverage.bounded), complete within each instance: for the package the real generator emits for each corpus specification, NextToken is proved - for every input text, relative to the abstract cursor contract of the emitted reader - to return the longest-run token at the first position that is not skipped (terminals WS, EOL, COMMENT; blanks no token matches), the terminal owning the state reached, the exact lexeme and the position of its first character, a lexical error if the state reached is not accepting, and end of input after the last token, also when the text does not end in a newline. The emitted reader itself (template text) is compared with that cursor contract by a bounded conformance run inside the emitted package.",
		Lemmas:  []string{"L-PREFIX (the longest run is unique: see C05)"},
		Trusted: []string{"text/template executes the template as documented", "A-LEXLEN, A-NONUL, A-READER for the emitted reader: the property says 'any UTF-8 input', but the emitted two-half reader uses the NUL byte as its end marker (a NUL in the input ends it), returns a wrong lexeme for a token longer than one buffer half (4096 bytes; observed from 8192), treats a short read as the end of input, and New fails with io.EOF on an empty input (reported by a seeding agent, reproduced by it on the unchanged tree): inputs with a NUL byte, tokens longer than 4096 bytes, short-reading readers and the empty input are OUTSIDE what this check decides"},
	})
}
