package main

// C16 (CLI: success iff package fully written; flags honoured; existing files untouched) and
// C06 (LALR(1) table for a user grammar; conflicts are errors) - the repository's share.

const nonSafety = `^(post|frame|pre|inv-init|inv-pres|step|callsite|refine|term|vacuity)$`

func init() {
	register(&PropSpec{
		ID: "C16", Level: "proof",
		Pkgs:    []string{"./cmd/emerge", "./internal/command", "./internal/generate/golang"},
		Prepare: prepareAll,
		Select: []Selector{
			{Units: `generate/golang\.(Generate|generator\.(prepare|renderTemplate|generateCore|generateLexer|generateParser)|isIDValid)$`, Kinds: nonSafety},
			{Units: `internal/command\.(New|Command\.Run|Command\.PrintHelp)$`, Kinds: nonSafety},
			{Units: `cmd/emerge\.main$`, Kinds: `^(callsite|vacuity)$`},
		},
		Trusted: []string{
			"A-FS: abstract file system fsKind/fsData and the assumed contracts of os.Stat/Mkdir/OpenFile/Open, (*File).Close, filepath.Join/Clean/Base (/verif/contracts/dep/os.gvc)",
			"A-TEMPLATE: (*template.Template).Execute writes only to its writer",
			"A-PARSE-FS: the specification parser has no file-system effect; the funcs.Generate field holds golang.Generate (its proved contract is what the callback contract of Run states)",
			"isIDValid is taken as the definition of 'usable Go package identifier' (its regular expression and reserved-word list are not re-derived)",
			"Spec.DFA is under contract (C03); regexToDFA is opaque (effect-free)",
		},
	})
	register(&PropSpec{
		ID: "C06", Level: "other",
		Pkgs:    []string{"./internal/generate/golang", "./internal/ebnf/parser/spec"},
		Prepare: prepareAll,
		Extra:   lalrConformance,
		Select: []Selector{
			{Units: `parser/spec\.Spec\.LALRParsingTable$`},
			// what reaches the table builder: the directive actions (associativity as written, levels in source order) and the
			// memo of synthesised names a rule handle relies on (hash of a list of alternatives independent of their order)
			{Units: `parser/spec\.Parse\$1$`, Names: `#post\[(c1[2-4]-|directive-appends-one|others-keep-levels)`},
			{Units: `parser/spec\.SymbolTable\.(AddPrecedence|Precedences)$`},
			// a rule handle contributes every production of its rule, wherever the directive stands (shared with C12)
			{Units: `parser/spec\.Parse\$1$`, Names: `#post\[(c1[5-9]-|c2[01]-)`},
			{Units: `parser/spec\.Parse\$1$`, Names: `#(inv-init|inv-pres|inv-frame)\[[678],`},
			{Units: `parser/spec\.SymbolTable\.AddProduction$`},
			{Units: `parser/spec\.(hashStrings|eqStrings|Strings\.Contains)$`},
			// the grammar handed to the table builder is the user's: one helper non-terminal per (operator, operands) (shared with C01)
			{Units: `parser/spec\.SymbolTable\.(GetOpt|GetGroup|GetStar|GetPlus|mapStringToNoneTerminal)$`},
			{Units: `generate/golang\.generator\.generateParser$`, Kinds: nonSafety},
			{Units: `generate/golang\.Generate$`, Kinds: nonSafety},
		},
		Explain: "Proved (all inputs): LALRParsingTable passes exactly (Grammar, Precedences) to lookahead.BuildParsingTable, returns its table unchanged and an error iff it reports one; generateParser/Generate return that error and write no parser.go. NOT decided by this technique: the LALR(1) construction and conflict resolution themselves (3 kLoC of generic dependency code): assumed contract; its error-iff-conflict half is compared with the reference LALR(1)+precedence constructor on a corpus of specifications (BOUNDED stand-in, see coverage.bounded; the tables themselves are not compared).",
		Trusted: []string{"assumed contract of lookahead.BuildParsingTable (A-DEP)"},
	})
}
