package main

// C17 — processing is a pure function of the text: ownership obligations on package-level state.
//
// own[<var>@<site>]: a package-level variable of the repository is never written after package
// initialisation, and never handed to code that may write it. These are frame obligations decided on the
// typed AST (syntactic + contract look-up), not SMT queries; together with the frame clauses (`modifies`) of
// the functions under contract they say that a call's footprint is the objects it allocates itself.

import (
	"fmt"
	"go/ast"
	"go/token"
	"go/types"
	"sort"
	"strings"

	"golang.org/x/tools/go/packages"
)

var c17Pkgs = []string{"./internal/ebnf/lexer", "./internal/ebnf/parser", "./internal/ebnf/parser/spec", "./internal/ebnf/parser/ast",
	"./internal/regex/parser", "./internal/regex/parser/nfa", "./internal/regex/parser/ast", "./internal/generate/golang", "./internal/command"}

type ownSite struct {
	v    *types.Var
	pos  token.Position
	what string
}

func isRepoPkgVar(o types.Object) *types.Var {
	v, ok := o.(*types.Var)
	if !ok || v.Pkg() == nil || v.IsField() || v.Parent() != v.Pkg().Scope() {
		return nil
	}
	if !strings.HasPrefix(v.Pkg().Path(), "github.com/gardenbed/emerge") {
		return nil
	}
	return v
}

// c17Aliases: locals of the function being scanned that were given a reference (slice, map, pointer, channel) rooted at
// a package-level variable, e.g. `charMap := asciiMarks[:]`: a write through such a local is a write to the shared state.
var c17Aliases = map[types.Object]*types.Var{}

func collectAliases(info *types.Info, body *ast.BlockStmt) {
	c17Aliases = map[types.Object]*types.Var{}
	for pass := 0; pass < 2; pass++ { // twice: chains of aliases in any textual order
		ast.Inspect(body, func(n ast.Node) bool {
			bind := func(l, r ast.Expr) {
				id := identOf(l)
				if id == nil || id.Name == "_" {
					return
				}
				o := info.ObjectOf(id)
				if o == nil || isRepoPkgVar(o) != nil {
					return
				}
				if v := rootPkgVar(info, r); v != nil {
					if tv, ok := info.Types[r]; ok && aliasKind(tv.Type) {
						c17Aliases[o] = v
					}
				}
			}
			switch x := n.(type) {
			case *ast.AssignStmt:
				if len(x.Lhs) == len(x.Rhs) {
					for i := range x.Lhs {
						bind(x.Lhs[i], x.Rhs[i])
					}
				}
			case *ast.ValueSpec:
				if len(x.Names) == len(x.Values) {
					for i := range x.Names {
						bind(x.Names[i], x.Values[i])
					}
				}
			case *ast.RangeStmt:
				// for _, e := range pkgSliceOfPointers: e aliases an element
				if x.Value != nil && x.Tok == token.DEFINE {
					if v := rootPkgVar(info, x.X); v != nil {
						if id := identOf(x.Value); id != nil && id.Name != "_" {
							if o := info.ObjectOf(id); o != nil && aliasKind(o.Type()) {
								c17Aliases[o] = v
							}
						}
					}
				}
			}
			return true
		})
	}
}

func rootPkgVar(info *types.Info, e ast.Expr) *types.Var {
	for {
		switch x := ast.Unparen(e).(type) {
		case *ast.Ident:
			if v, ok := c17Aliases[info.ObjectOf(x)]; ok {
				return v // a local that holds a reference into a package-level variable
			}
			return isRepoPkgVar(info.ObjectOf(x))
		case *ast.SelectorExpr:
			if v := isRepoPkgVar(info.ObjectOf(x.Sel)); v != nil {
				if isPkg := isPkgName(info, x.X); isPkg {
					return v
				}
			}
			e = x.X
		case *ast.IndexExpr:
			e = x.X
		case *ast.SliceExpr:
			e = x.X
		case *ast.StarExpr:
			e = x.X
		case *ast.TypeAssertExpr:
			e = x.X
		default:
			return nil
		}
	}
}

func identOf(e ast.Expr) *ast.Ident {
	id, _ := ast.Unparen(e).(*ast.Ident)
	return id
}

func aliasKind(t types.Type) bool {
	switch t.Underlying().(type) {
	case *types.Pointer, *types.Map, *types.Slice, *types.Chan:
		return true
	}
	return false
}

func mutableKind(t types.Type) bool {
	switch t.Underlying().(type) {
	case *types.Pointer, *types.Map, *types.Slice, *types.Chan, *types.Interface, *types.Signature:
		return true
	case *types.Struct:
		return true // may contain references; passing by value copies only the top level
	}
	return false
}

// calleeMayWrite: does the contract base say the callee leaves its receiver / arguments alone?
func calleeMayWrite(eng *Engine, key string, alt []string) (bool, string) {
	for _, k := range append([]string{key}, alt...) {
		if fc, ok := eng.contracts[k]; ok {
			if fc.Pure || len(fc.Modifies) == 0 {
				return false, "contract of " + shortKey(k) + " has no modifies clause"
			}
			var ms []string
			for _, m := range fc.Modifies {
				ms = append(ms, m.Text)
			}
			return true, "contract of " + shortKey(k) + " modifies " + strings.Join(ms, ", ")
		}
	}
	return true, "no contract for " + shortKey(key)
}

func ownObligations(c *CheckCtx) error {
	var sites []ownSite
	nvars, nuses, nobl := 0, 0, 0
	seenVar := map[*types.Var]bool{}
	for _, pp := range c17Pkgs {
		p, err := loadOne(c.Repo, pp)
		if err != nil {
			return err
		}
		info := p.TypesInfo
		for _, f := range p.Syntax {
			fname := p.Fset.Position(f.Pos()).Filename
			if strings.HasSuffix(fname, "_test.go") {
				continue
			}
			for _, d := range f.Decls {
				fd, ok := d.(*ast.FuncDecl)
				if !ok || fd.Body == nil {
					continue
				}
				if fd.Recv == nil && fd.Name.Name == "init" {
					continue // package initialisation may set up package-level state
				}
				collectAliases(info, fd.Body)
				add := func(v *types.Var, n ast.Node, what string) {
					sites = append(sites, ownSite{v, p.Fset.Position(n.Pos()), what})
				}
				ast.Inspect(fd.Body, func(n ast.Node) bool {
					switch x := n.(type) {
					case *ast.Ident:
						if v := isRepoPkgVar(info.Uses[x]); v != nil {
							nuses++
							if !seenVar[v] {
								seenVar[v] = true
								nvars++
							}
						}
					case *ast.AssignStmt:
						for _, l := range x.Lhs {
							if id := identOf(l); id != nil && isRepoPkgVar(info.ObjectOf(id)) == nil {
								continue // (re)binding a local, even one that aliases shared state, writes nothing shared
							}
							if v := rootPkgVar(info, l); v != nil {
								nobl++
								add(v, l, "assigned (or an element / field of it is stored into)")
							}
						}
					case *ast.IncDecStmt:
						if v := rootPkgVar(info, x.X); v != nil {
							nobl++
							add(v, x, "incremented / decremented")
						}
					case *ast.UnaryExpr:
						if x.Op == token.AND {
							if v := rootPkgVar(info, x.X); v != nil {
								nobl++
								add(v, x, "address taken")
							}
						}
					case *ast.RangeStmt:
						if x.Tok == token.ASSIGN {
							for _, l := range []ast.Expr{x.Key, x.Value} {
								if l != nil {
									if id := identOf(l); id != nil && isRepoPkgVar(info.ObjectOf(id)) == nil {
										continue
									}
									if v := rootPkgVar(info, l); v != nil {
										nobl++
										add(v, l, "assigned by a range clause")
									}
								}
							}
						}
					case *ast.CallExpr:
						// builtins that write their first argument
						if id := identOf(x.Fun); id != nil {
							if b, ok := info.Uses[id].(*types.Builtin); ok {
								switch b.Name() {
								case "delete", "clear", "copy":
									if len(x.Args) > 0 {
										if v := rootPkgVar(info, x.Args[0]); v != nil {
											nobl++
											add(v, x, b.Name()+" applied to it")
										}
									}
								}
								return true
							}
						}
						// method call on (something rooted at) a package-level variable
						if sel, ok := ast.Unparen(x.Fun).(*ast.SelectorExpr); ok {
							if s, ok := info.Selections[sel]; ok && s.Kind() == types.MethodVal {
								if v := rootPkgVar(info, sel.X); v != nil {
									nobl++
									fn := s.Obj().(*types.Func)
									_, ptrRecv := derefType(fn.Type().(*types.Signature).Recv().Type())
									_, isIface := s.Recv().Underlying().(*types.Interface)
									if ptrRecv || isIface {
										key := funcKey(fn)
										var alt []string
										if n := namedOf(s.Recv()); n != nil && n.Obj().Pkg() != nil {
											alt = append(alt, n.Obj().Pkg().Path()+"."+n.Obj().Name()+"."+fn.Name())
										}
										if may, why := calleeMayWrite(c.Eng, key, alt); may {
											add(v, x, "receiver of "+fn.Name()+" ("+why+")")
										}
									}
								}
							}
						}
						// passed as an argument
						for _, a := range x.Args {
							if v := rootPkgVar(info, a); v != nil {
								if tv, ok := info.Types[a]; ok && mutableKind(tv.Type) {
									nobl++
									key, alt := "", []string(nil)
									switch f := ast.Unparen(x.Fun).(type) {
									case *ast.Ident:
										if fo, ok := info.Uses[f].(*types.Func); ok {
											key = funcKey(fo)
										}
									case *ast.SelectorExpr:
										if fo, ok := info.Uses[f.Sel].(*types.Func); ok {
											key = funcKey(fo)
											if s, ok := info.Selections[f]; ok {
												if n := namedOf(s.Recv()); n != nil && n.Obj().Pkg() != nil {
													alt = append(alt, n.Obj().Pkg().Path()+"."+n.Obj().Name()+"."+fo.Name())
												}
											}
										}
									}
									if key == "" {
										if tvf, ok := info.Types[x.Fun]; ok && tvf.IsType() {
											continue // conversion
										}
										add(v, a, "passed to a function value")
										continue
									}
									if may, why := calleeMayWrite(c.Eng, key, alt); may {
										add(v, a, "passed to "+shortKey(key)+" ("+why+")")
									}
								}
							}
						}
					}
					return true
				})
			}
		}
		_ = packages.NeedName
	}
	sort.Slice(sites, func(i, j int) bool {
		if sites[i].pos.Filename != sites[j].pos.Filename {
			return sites[i].pos.Filename < sites[j].pos.Filename
		}
		return sites[i].pos.Line < sites[j].pos.Line
	})
	perVar := map[string]int{}
	for _, s := range sites {
		// obligation name: variable and enclosing file (stable under unrelated edits), ordinal per variable
		vn := s.v.Pkg().Path() + "." + s.v.Name()
		perVar[vn]++
		c.ExtraFindings = append(c.ExtraFindings, Finding{
			Obligation: fmt.Sprintf("%s#own[%d]", vn, perVar[vn]-1),
			What:       fmt.Sprintf("%s:%d: package-level variable %s is %s: state shared by every call in the process, reachable without synchronisation", s.pos.Filename, s.pos.Line, s.v.Name(), s.what),
			Replay:     map[string]any{"kind": "ownership obligation (typed AST + contract look-up)", "variable": vn, "position": s.pos.String(), "how": s.what}})
	}
	c.Notes = append(c.Notes, fmt.Sprintf("own: %d package-level variables of the repository used in %d places inside functions of %d packages; %d write/escape contexts examined, %d not justified", nvars, nuses, len(c17Pkgs), nobl, len(sites)))
	c.Data["ownExamined"] = nobl
	return nil
}

func init() {
	register(&PropSpec{
		ID: "C17", Level: "other",
		Pkgs:    []string{"./internal/ebnf/parser/spec", "./internal/ebnf/parser", "./internal/regex/parser", "./internal/regex/parser/nfa", "./internal/regex/parser/ast"},
		Prepare: prepareAll,
		Extra:   ownObligations,
		Select: []Selector{
			// frame clauses: what the functions on the processing path may write
			{Units: specPkgRe + `(Parse\$1|SymbolTable\.[A-Za-z]+(\$1)?|hashStrings|eqStrings|Strings\.Contains|NewSymbolTable)$`, Kinds: `^(frame|vacuity)$`},
			{Units: `regex/parser\.(Parser\.Parse|New|newStringInput|stringInput\.(Current|Remaining)|toNum|toDigit)$`, Kinds: `^(frame|vacuity)$`},
			{Units: `regex/parser/(nfa|ast)\.mappers\.(ToUpperBound|ToRange|ToCharRange)$`, Kinds: `^(frame|vacuity)$`},
			{Units: `ebnf/parser\.Parser\.(ParseAndEvaluate|ParseAndBuildAST)\$\d+$`, Kinds: `^(frame|vacuity)$`},
		},
		Explain: "Decided statically for the repository's own code (sequential half of the property): (1) ownership obligations own[...] - no function of the nine processing packages assigns, increments, takes the address of, deletes from, or stores into a package-level variable, calls on one a pointer-receiver/interface method whose contract declares an effect, or passes one to a callee that may write it (typed AST + contract look-up; package initialisation excepted); (2) frame obligations (SMT-discharged) of the functions under contract on the processing path: each writes only what its modifies clause names - the symbol table created by that Parse call, its own error accumulator, objects it allocates. Hence nothing a call writes outlives it or is visible to another call. NOT decided: actual interleavings and the race detector (no concurrency logic in this technique), package-level state inside the dependency (moorara/algo builds shared FNV hashers into grammar.HashTerminal etc.: outside the repository), functions not under contract.",
		Trusted: []string{"A-SEQ: sync.Mutex has no sequential effect", "dependency globals are outside the claim"},
	})
}


func isPkgName(info *types.Info, e ast.Expr) bool {
	id := identOf(e)
	if id == nil {
		return false
	}
	_, ok := info.ObjectOf(id).(*types.PkgName)
	return ok
}
