package main

// SMT layer: query assembly and portfolio discharge (z3-new, z3, cvc5).

import (
	"bytes"
	"context"
	"fmt"
	"os"
	"os/exec"
	"path/filepath"
	"strings"
	"sync"
	"time"
)

type Verdict int

const (
	Proved Verdict = iota
	Refuted
	Unknown
)

func (v Verdict) String() string {
	switch v {
	case Proved:
		return "proved"
	case Refuted:
		return "refuted"
	}
	return "unknown"
}

type SolveResult struct {
	Verdict Verdict
	Backend string
	Secs    float64
	Model   string // raw model text when refuted
	Output  string // raw solver output (first lines) for unknown / diagnostics
	Agree   []string
}

type solverSpec struct {
	name string
	retryOnly bool
	argv func(file string, timeoutS int, seed int) []string
	// prep rewrites the query text for this solver (option ordering etc.)
	prep func(q string) string
}

var solvers = []solverSpec{
	{name: "z3-new", argv: func(f string, t int, seed int) []string {
		return []string{"z3-new", fmt.Sprintf("-T:%d", t), fmt.Sprintf("smt.random_seed=%d", seed), f}
	}, prep: func(q string) string { return q }},
	{name: "z3", argv: func(f string, t int, seed int) []string {
		return []string{"z3", fmt.Sprintf("-T:%d", t), fmt.Sprintf("smt.random_seed=%d", seed), f}
	}, prep: func(q string) string { return q }},
	// more seeds of the newer z3: e-matching proofs vary a lot with the seed (0.3 s with one, a time-out with the
	// next); used only for the second chance given to obligations that timed out
	{name: "z3-new/s+1", retryOnly: true, argv: func(f string, t int, seed int) []string {
		return []string{"z3-new", fmt.Sprintf("-T:%d", t), fmt.Sprintf("smt.random_seed=%d", seed+1), f}
	}, prep: func(q string) string { return q }},
	{name: "z3-new/s+2", retryOnly: true, argv: func(f string, t int, seed int) []string {
		return []string{"z3-new", fmt.Sprintf("-T:%d", t), fmt.Sprintf("smt.random_seed=%d", seed+2), f}
	}, prep: func(q string) string { return q }},
	{name: "z3-new/s+3", retryOnly: true, argv: func(f string, t int, seed int) []string {
		return []string{"z3-new", fmt.Sprintf("-T:%d", t), fmt.Sprintf("smt.random_seed=%d", seed+3), f}
	}, prep: func(q string) string { return q }},
	{name: "z3/s+1", retryOnly: true, argv: func(f string, t int, seed int) []string {
		return []string{"z3", fmt.Sprintf("-T:%d", t), fmt.Sprintf("smt.random_seed=%d", seed+1), f}
	}, prep: func(q string) string { return q }},
	{name: "cvc5", argv: func(f string, t int, seed int) []string {
		return []string{"cvc5", "--produce-models", fmt.Sprintf("--tlimit=%d", t*1000), fmt.Sprintf("--seed=%d", seed), f}
	}, prep: func(q string) string {
		return "(set-logic ALL)\n" + q
	}},
}

// solveOpts controls a discharge.
type solveOpts struct {
	TimeoutS  int
	Seed      int
	Backends  []string // subset of solver names; empty = all
	NeedAgree int      // number of solvers that must answer unsat (thorough, QF only); 0/1 = first answer wins
	KeepDir   string   // directory to keep query files in
	AllSeeds  bool     // also run the extra-seed instances (second chance)
}

var scratchDir string

func scratch() string {
	if scratchDir == "" {
		d, err := os.MkdirTemp("", "govc-")
		if err != nil {
			panic(err)
		}
		scratchDir = d
	}
	return scratchDir
}

func cleanupScratch() {
	if scratchDir != "" {
		os.RemoveAll(scratchDir)
	}
}

var solverErrors int
var qcounter int
var qmu sync.Mutex

// solve runs the query (which must end before (check-sat)) on the portfolio.
// query contains declarations and assertions; the goal is already negated inside.
func solve(name string, query string, o solveOpts) SolveResult {
	qmu.Lock()
	qcounter++
	id := qcounter
	qmu.Unlock()
	base := filepath.Join(scratch(), fmt.Sprintf("q%05d", id))
	full := query + "\n(check-sat)\n(get-model)\n"
	type ans struct {
		name string
		out  string
		secs float64
	}
	ctx, cancel := context.WithCancel(context.Background())
	defer cancel()
	var use []solverSpec
	for _, s := range solvers {
		if len(o.Backends) == 0 {
			if !s.retryOnly || o.AllSeeds {
				use = append(use, s)
			}
			continue
		}
		for _, b := range o.Backends {
			if b == s.name {
				use = append(use, s)
			}
		}
	}
	ch := make(chan ans, len(use))
	for _, s := range use {
		s := s
		go func() {
			f := base + "." + strings.ReplaceAll(s.name, "/", "_") + ".smt2"
			os.WriteFile(f, []byte(s.prep(full)), 0o644)
			t0 := time.Now()
			argv := s.argv(f, o.TimeoutS, o.Seed)
			cmd := exec.CommandContext(ctx, argv[0], argv[1:]...)
			var buf bytes.Buffer
			cmd.Stdout = &buf
			cmd.Stderr = &buf
			cmd.Run()
			ch <- ans{s.name, buf.String(), time.Since(t0).Seconds()}
		}()
	}
	res := SolveResult{Verdict: Unknown}
	need := o.NeedAgree
	if need < 1 {
		need = 1
	}
	got := 0
	var outs []string
	t0 := time.Now()
	for range use {
		a := <-ch
		// the verdict is the first line that is not a warning
		first := ""
		for _, l := range strings.Split(a.out, "\n") {
			l = strings.TrimSpace(l)
			if l == "" || strings.HasPrefix(l, "WARNING") {
				continue
			}
			first = l
			break
		}
		if strings.Contains(a.out, "(error") && !strings.Contains(a.out, "model is not available") && !strings.Contains(a.out, "Cannot get model") {
			first = "error"
			qmu.Lock()
			solverErrors++
			qmu.Unlock()
		}
		switch first {
		case "unsat":
			got++
			res.Agree = append(res.Agree, a.name)
			if res.Backend == "" {
				res.Backend = a.name
				res.Secs = a.secs
			}
			if got >= need {
				res.Verdict = Proved
				goto done
			}
		case "sat":
			res.Verdict = Refuted
			res.Backend = a.name
			res.Secs = a.secs
			res.Model = a.out
			goto done
		default:
			o := a.out
			if len(o) > 400 {
				o = o[:400]
			}
			outs = append(outs, a.name+": "+strings.ReplaceAll(o, "\n", " | "))
		}
	}
	if got > 0 {
		// fewer than requested agreed but at least one proved and none refuted
		res.Verdict = Proved
	}
done:
	cancel()
	if res.Verdict == Unknown {
		res.Secs = time.Since(t0).Seconds()
		res.Output = strings.Join(outs, "\n")
	}
	if o.KeepDir != "" && res.Verdict != Proved {
		os.MkdirAll(o.KeepDir, 0o755)
		os.WriteFile(filepath.Join(o.KeepDir, sanitize(name)+".smt2"), []byte(full), 0o644)
	}
	for _, s := range use {
		os.Remove(base + "." + s.name + ".smt2")
	}
	return res
}

func sanitize(s string) string {
	var b strings.Builder
	for _, r := range s {
		switch {
		case r >= 'a' && r <= 'z', r >= 'A' && r <= 'Z', r >= '0' && r <= '9', r == '.', r == '-', r == '_':
			b.WriteRune(r)
		default:
			b.WriteByte('_')
		}
	}
	return b.String()
}

// ---- small term helpers (terms are SMT-LIB strings) ----

func sAnd(xs ...string) string {
	var ys []string
	for _, x := range xs {
		if x == "true" || x == "" {
			continue
		}
		if x == "false" {
			return "false"
		}
		ys = append(ys, x)
	}
	switch len(ys) {
	case 0:
		return "true"
	case 1:
		return ys[0]
	}
	return "(and " + strings.Join(ys, " ") + ")"
}

func sOr(xs ...string) string {
	var ys []string
	for _, x := range xs {
		if x == "false" || x == "" {
			continue
		}
		if x == "true" {
			return "true"
		}
		ys = append(ys, x)
	}
	switch len(ys) {
	case 0:
		return "false"
	case 1:
		return ys[0]
	}
	return "(or " + strings.Join(ys, " ") + ")"
}

func sNot(x string) string {
	switch x {
	case "true":
		return "false"
	case "false":
		return "true"
	}
	if strings.HasPrefix(x, "(not ") && strings.HasSuffix(x, ")") && balanced(x[5:len(x)-1]) {
		return x[5 : len(x)-1]
	}
	return "(not " + x + ")"
}

func balanced(s string) bool {
	d := 0
	for i := 0; i < len(s); i++ {
		switch s[i] {
		case '(':
			d++
		case ')':
			d--
			if d < 0 {
				return false
			}
		case ' ':
			if d == 0 {
				return false
			}
		}
	}
	return d == 0
}

func sImp(a, b string) string {
	if a == "true" {
		return b
	}
	if b == "true" {
		return "true"
	}
	if a == "false" {
		return "true"
	}
	return "(=> " + a + " " + b + ")"
}

func sIte(c, a, b string) string {
	if c == "true" {
		return a
	}
	if c == "false" {
		return b
	}
	if a == b {
		return a
	}
	return "(ite " + c + " " + a + " " + b + ")"
}

func sEq(a, b string) string {
	if a == b {
		return "true"
	}
	return "(= " + a + " " + b + ")"
}

func sInt(n int64) string {
	if n < 0 {
		return fmt.Sprintf("(- %d)", -n)
	}
	return fmt.Sprintf("%d", n)
}

func sApp(f string, args ...string) string {
	if len(args) == 0 {
		return f
	}
	return "(" + f + " " + strings.Join(args, " ") + ")"
}
