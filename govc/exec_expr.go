package main

// Symbolic evaluation of Go expressions over the typed AST.

import (
	"fmt"
	"go/ast"
	"go/constant"
	"go/token"
	"go/types"
	"strings"
)

func (vc *VC) typeOf(e ast.Expr) types.Type {
	if tv, ok := vc.info.Types[e]; ok && tv.Type != nil {
		return tv.Type
	}
	if id, ok := e.(*ast.Ident); ok {
		if o := vc.info.ObjectOf(id); o != nil {
			return o.Type()
		}
	}
	return nil
}

func (vc *VC) constTerm(v constant.Value, t types.Type) (Term, bool) {
	s := vc.U.sortOf(t)
	switch v.Kind() {
	case constant.Bool:
		if constant.BoolVal(v) {
			return Term{"true", s}, true
		}
		return Term{"false", s}, true
	case constant.Int:
		str := v.ExactString()
		if strings.HasPrefix(str, "-") {
			str = "(- " + str[1:] + ")"
		}
		if s.Kind != KInt {
			s = sortInt
		}
		return Term{str, s}, true
	case constant.String:
		if s.Kind != KStr {
			s = sortStr
		}
		return Term{vc.U.lit(constant.StringVal(v)), s}, true
	}
	return Term{}, false
}

// isSimple reports whether evaluating e has no side effects and generates no obligations.
func (vc *VC) isSimple(e ast.Expr) bool {
	simple := true
	ast.Inspect(e, func(n ast.Node) bool {
		switch x := n.(type) {
		case *ast.CallExpr:
			// conversions and len are simple
			if tv, ok := vc.info.Types[x.Fun]; ok && tv.IsType() {
				return true
			}
			if id, ok := x.Fun.(*ast.Ident); ok && (id.Name == "len" || id.Name == "cap") {
				if _, isB := vc.info.Uses[id].(*types.Builtin); isB {
					return true
				}
			}
			simple = false
		case *ast.IndexExpr, *ast.SliceExpr, *ast.StarExpr, *ast.TypeAssertExpr, *ast.FuncLit:
			simple = false
		case *ast.SelectorExpr:
			if sel, ok := vc.info.Selections[x]; ok {
				if _, isPtr := derefType(sel.Recv()); isPtr || sel.Indirect() {
					simple = false
				}
			}
		case *ast.BinaryExpr:
			if x.Op == token.QUO || x.Op == token.REM {
				simple = false
			}
		}
		return simple
	})
	return simple
}

func derefType(t types.Type) (types.Type, bool) {
	if p, ok := types.Unalias(t).Underlying().(*types.Pointer); ok {
		return p.Elem(), true
	}
	return t, false
}

func (vc *VC) eval(st *State, e ast.Expr) Term {
	ts := vc.evalMulti(st, e, false)
	if len(ts) == 0 {
		return Term{"0", sortInt}
	}
	return ts[0]
}

// evalMulti evaluates e; commaOk requests the 2-valued form for map index / type assertion / recv.
func (vc *VC) evalMulti(st *State, e ast.Expr, commaOk bool) []Term {
	if st.dead {
		t := vc.typeOf(e)
		if t == nil {
			return []Term{{"0", sortInt}}
		}
		if tup, ok := t.(*types.Tuple); ok {
			var out []Term
			for i := 0; i < tup.Len(); i++ {
				s := vc.U.sortOf(tup.At(i).Type())
				out = append(out, Term{vc.U.zero(s), s})
			}
			return out
		}
		s := vc.U.sortOf(t)
		return []Term{{vc.U.zero(s), s}}
	}
	if tv, ok := vc.info.Types[e]; ok && tv.Value != nil {
		if t, ok := vc.constTerm(tv.Value, tv.Type); ok {
			return []Term{t}
		}
	}
	switch x := e.(type) {
	case *ast.ParenExpr:
		return vc.evalMulti(st, x.X, commaOk)
	case *ast.BasicLit:
		vc.unsupportedf(e, "literal %s", x.Value)
		return []Term{{"0", sortInt}}
	case *ast.Ident:
		return []Term{vc.evalIdent(st, x)}
	case *ast.UnaryExpr:
		return []Term{vc.evalUnary(st, x)}
	case *ast.BinaryExpr:
		return []Term{vc.evalBinary(st, x)}
	case *ast.StarExpr:
		p := vc.eval(st, x.X)
		vc.assert(st, "nil", sNot(sEq(p.S, "0")), x.Pos(), "nil dereference")
		return []Term{vc.loadRef(st, p.S, p.Sort.Elem)}
	case *ast.SelectorExpr:
		return []Term{vc.evalSelector(st, x)}
	case *ast.IndexExpr:
		return vc.evalIndex(st, x, commaOk)
	case *ast.SliceExpr:
		return []Term{vc.evalSliceExpr(st, x)}
	case *ast.CallExpr:
		return vc.evalCall(st, x)
	case *ast.CompositeLit:
		return []Term{vc.evalComposite(st, x)}
	case *ast.TypeAssertExpr:
		return vc.evalTypeAssert(st, x, commaOk)
	case *ast.FuncLit:
		return []Term{vc.evalFuncLit(st, x)}
	case *ast.IndexListExpr:
		// generic instantiation f[T1,T2]
		return vc.evalMulti(st, x.X, commaOk)
	}
	vc.unsupportedf(e, "expression %T", e)
	t := vc.typeOf(e)
	if t != nil {
		s := vc.U.sortOf(t)
		return []Term{vc.fresh("unk", s)}
	}
	return []Term{vc.fresh("unk", sortInt)}
}

func (vc *VC) evalIdent(st *State, id *ast.Ident) Term {
	obj := vc.info.ObjectOf(id)
	switch o := obj.(type) {
	case *types.Nil:
		t := vc.typeOf(id)
		if t != nil {
			s := vc.U.sortOf(t)
			return Term{vc.U.zero(s), s}
		}
		return Term{"0", &Sort{Kind: KRef, Name: "Int"}}
	case *types.Var:
		return vc.readVar(st, o)
	case *types.Const:
		if t, ok := vc.constTerm(o.Val(), o.Type()); ok {
			return t
		}
	case *types.Func:
		return vc.funcValue(o)
	}
	if id.Name == "_" {
		return Term{"0", sortInt}
	}
	vc.unsupportedf(id, "identifier %s (%T)", id.Name, obj)
	return vc.fresh("unk", sortInt)
}

// funcValue returns the opaque value of a named function used as a value.
func (vc *VC) funcValue(f *types.Func) Term {
	key := "$func:" + f.FullName()
	if t, ok := vc.heap0[key]; ok {
		return t
	}
	t := vc.fresh("fn_"+f.Name(), sortFunc)
	vc.facts = append(vc.facts, "(> "+t.S+" 0)")
	vc.heap0[key] = t
	return t
}

func (vc *VC) evalUnary(st *State, x *ast.UnaryExpr) Term {
	switch x.Op {
	case token.NOT:
		t := vc.eval(st, x.X)
		return Term{sNot(t.S), sortBool}
	case token.SUB:
		t := vc.eval(st, x.X)
		r := Term{"(- " + t.S + ")", t.Sort}
		vc.checkOverflow(st, r, x)
		return r
	case token.ADD:
		return vc.eval(st, x.X)
	case token.AND:
		return vc.evalAddrOf(st, x)
	case token.XOR:
		t := vc.eval(st, x.X)
		// ^x = -x-1 for signed; for unsigned: max - x
		if t.Sort.Kind == KInt && !t.Sort.Signed {
			_, hi, _ := t.Sort.rangeOf()
			return Term{"(- " + hi + " " + t.S + ")", t.Sort}
		}
		return Term{"(- (- " + t.S + ") 1)", t.Sort}
	}
	vc.unsupportedf(x, "unary %s", x.Op)
	return vc.fresh("unk", vc.U.sortOf(vc.typeOf(x)))
}

func (vc *VC) evalAddrOf(st *State, x *ast.UnaryExpr) Term {
	ptrSort := vc.U.sortOf(vc.typeOf(x))
	switch inner := ast.Unparen(x.X).(type) {
	case *ast.CompositeLit:
		v := vc.evalComposite(st, inner)
		ref := vc.newRef(st)
		vc.storeRef(st, ref, v.Sort, v.S)
		vc.initGhostFields(st, Term{ref, ptrSort})
		return Term{ref, ptrSort}
	case *ast.Ident:
		if v, ok := vc.info.ObjectOf(inner).(*types.Var); ok {
			if vc.cellVars[v] {
				if ref, ok := st.vars[v]; ok {
					return Term{ref.S, ptrSort}
				}
			}
		}
	case *ast.SelectorExpr:
		// &p.f : address of a field inside a heap object -- model as an opaque derived reference
		base := vc.eval(st, inner.X)
		_ = base
	case *ast.IndexExpr:
	}
	vc.unsupportedf(x, "address-of %T", x.X)
	return vc.fresh("addr", ptrSort)
}

func (vc *VC) checkOverflow(st *State, r Term, n ast.Node) {
	if r.Sort.Kind != KInt || r.Sort.Bits == 0 {
		return
	}
	lo, hi, ok := r.Sort.rangeOf()
	if !ok {
		return
	}
	if !r.Sort.Signed {
		// unsigned arithmetic wraps by definition; not an error in Go, modelled exactly by the caller
		return
	}
	vc.assert(st, "ovf", "(and (<= "+lo+" "+r.S+") (<= "+r.S+" "+hi+"))", n.Pos(), "sized integer overflow")
}

func (vc *VC) wrap(t Term, s *Sort) Term {
	lo, _, ok := s.rangeOf()
	if !ok || s.Bits == 0 {
		return Term{t.S, s}
	}
	mod := new(bigInt).setPow2(s.Bits).String()
	if s.Signed {
		return Term{"(+ (mod (- " + t.S + " " + lo + ") " + mod + ") " + lo + ")", s}
	}
	return Term{"(mod " + t.S + " " + mod + ")", s}
}

func (vc *VC) evalBinary(st *State, x *ast.BinaryExpr) Term {
	switch x.Op {
	case token.LAND, token.LOR:
		a := vc.eval(st, x.X)
		if vc.isSimple(x.Y) {
			b := vc.eval(st, x.Y)
			if x.Op == token.LAND {
				return Term{sAnd(a.S, b.S), sortBool}
			}
			return Term{sOr(a.S, b.S), sortBool}
		}
		// short circuit with side effects / obligations on the right
		br := st.clone()
		other := st.clone()
		if x.Op == token.LAND {
			vc.assume(br, a.S)
			vc.assume(other, sNot(a.S))
		} else {
			vc.assume(br, sNot(a.S))
			vc.assume(other, a.S)
		}
		b := vc.eval(br, x.Y)
		res := vc.fresh("sc", sortBool)
		if x.Op == token.LAND {
			vc.facts = append(vc.facts, sEq(res.S, sAnd(a.S, b.S)))
		} else {
			vc.facts = append(vc.facts, sEq(res.S, sOr(a.S, b.S)))
		}
		m := vc.merge(br, other)
		*st = *m
		return res
	}
	a := vc.eval(st, x.X)
	b := vc.eval(st, x.Y)
	rs := vc.U.sortOf(vc.typeOf(x))
	switch x.Op {
	case token.EQL:
		return Term{vc.equal(a, b), sortBool}
	case token.NEQ:
		return Term{sNot(vc.equal(a, b)), sortBool}
	case token.LSS, token.LEQ, token.GTR, token.GEQ:
		if a.Sort.Kind == KStr {
			vc.U.ensureStrLess()
			lt := func(p, q string) string { return "(str_lt " + p + " " + q + ")" }
			switch x.Op {
			case token.LSS:
				return Term{lt(a.S, b.S), sortBool}
			case token.GTR:
				return Term{lt(b.S, a.S), sortBool}
			case token.LEQ:
				return Term{sNot(lt(b.S, a.S)), sortBool}
			default:
				return Term{sNot(lt(a.S, b.S)), sortBool}
			}
		}
		op := map[token.Token]string{token.LSS: "<", token.LEQ: "<=", token.GTR: ">", token.GEQ: ">="}[x.Op]
		return Term{"(" + op + " " + a.S + " " + b.S + ")", sortBool}
	case token.ADD:
		if a.Sort.Kind == KStr {
			return Term{"(scat " + a.S + " " + b.S + ")", rs}
		}
		r := Term{"(+ " + a.S + " " + b.S + ")", rs}
		return vc.arithResult(st, r, x)
	case token.SUB:
		r := Term{"(- " + a.S + " " + b.S + ")", rs}
		return vc.arithResult(st, r, x)
	case token.MUL:
		r := Term{"(* " + a.S + " " + b.S + ")", rs}
		return vc.arithResult(st, r, x)
	case token.QUO, token.REM:
		vc.assert(st, "div", sNot(sEq(b.S, "0")), x.Pos(), "division by zero")
		// Go truncates toward zero; SMT div floors (for positive divisor) -- model exactly
		q := "(ite (>= " + a.S + " 0) (div " + a.S + " " + b.S + ") (- (div (- " + a.S + ") " + b.S + ")))"
		if x.Op == token.QUO {
			return Term{q, rs}
		}
		return Term{"(- " + a.S + " (* " + b.S + " " + q + "))", rs}
	case token.SHL, token.SHR, token.AND, token.OR, token.XOR, token.AND_NOT:
		return vc.bitop(st, x, a, b, rs)
	}
	vc.unsupportedf(x, "binary %s", x.Op)
	return vc.fresh("unk", rs)
}

func (vc *VC) arithResult(st *State, r Term, n ast.Node) Term {
	if r.Sort.Kind == KInt && r.Sort.Bits != 0 {
		if r.Sort.Signed {
			vc.checkOverflow(st, r, n)
			return r
		}
		return vc.wrap(r, r.Sort)
	}
	return r
}

func (vc *VC) bitop(st *State, x *ast.BinaryExpr, a, b Term, rs *Sort) Term {
	// constant shifts are multiplications / divisions by powers of two
	if tv, ok := vc.info.Types[x.Y]; ok && tv.Value != nil && (x.Op == token.SHL || x.Op == token.SHR) {
		if n, ok := constant.Int64Val(tv.Value); ok && n >= 0 && n < 64 {
			p := new(bigInt).setPow2(int(n)).String()
			if x.Op == token.SHL {
				return vc.arithResult(st, Term{"(* " + a.S + " " + p + ")", rs}, x)
			}
			return Term{"(div " + a.S + " " + p + ")", rs}
		}
	}
	// x & mask with mask = 2^k-1  ->  mod
	if tv, ok := vc.info.Types[x.Y]; ok && tv.Value != nil && x.Op == token.AND {
		if n, ok := constant.Int64Val(tv.Value); ok && n > 0 && (n&(n+1)) == 0 {
			return Term{fmt.Sprintf("(mod %s %d)", a.S, n+1), rs}
		}
	}
	name := map[token.Token]string{token.SHL: "bv_shl", token.SHR: "bv_shr", token.AND: "bv_and", token.OR: "bv_or", token.XOR: "bv_xor", token.AND_NOT: "bv_andnot"}[x.Op]
	vc.U.ensureFun(name, "(Int Int) Int")
	vc.note("A-BITOP: bit operation " + x.Op.String() + " at " + vc.position(x.Pos()).String() + " is uninterpreted")
	return Term{"(" + name + " " + a.S + " " + b.S + ")", rs}
}

func (u *Universe) ensureFun(name, sig string) {
	if !u.declared["fun:"+name] {
		u.declared["fun:"+name] = true
		// sig like "(Int Int) Int"
		u.decls = append(u.decls, fmt.Sprintf("(declare-fun %s %s)", name, sig))
	}
}

func (u *Universe) ensureStrLess() {
	if !u.declared["fun:str_lt"] {
		u.ensureFun("str_lt", "(Str Str) Bool")
		u.axioms = append(u.axioms,
			"(forall ((a Str)) (! (not (str_lt a a)) :pattern ((str_lt a a))))",
			"(forall ((a Str) (b Str)) (! (=> (str_lt a b) (not (str_lt b a))) :pattern ((str_lt a b))))",
			"(forall ((a Str) (b Str)) (! (or (str_lt a b) (str_lt b a) (= a b)) :pattern ((str_lt a b))))",
			"(forall ((a Str) (b Str) (c Str)) (! (=> (and (str_lt a b) (str_lt b c)) (str_lt a c)) :pattern ((str_lt a b) (str_lt b c))))")
	}
}

// equal builds Go == between two terms (nil literal adapts to the other side).
func (vc *VC) equal(a, b Term) string {
	if a.Sort.Kind == KAny && b.Sort.Kind != KAny {
		b = vc.toAny(b)
	} else if b.Sort.Kind == KAny && a.Sort.Kind != KAny {
		a = vc.toAny(a)
	}
	if a.Sort.Kind == KSlice && (b.S == vc.U.zero(b.Sort)) {
		return "(= (" + a.Sort.Name + "_len " + a.S + ") 0)" // s == nil approximated by len(s)==0 (A-NILSLICE)
	}
	if b.Sort.Kind == KSlice && (a.S == vc.U.zero(a.Sort)) {
		return "(= (" + b.Sort.Name + "_len " + b.S + ") 0)"
	}
	return sEq(a.S, b.S)
}

// toAny boxes a concrete value into an interface value.
func (vc *VC) toAny(t Term) Term {
	if t.Sort.Kind == KAny {
		return t
	}
	gt := t.Sort.GoT
	if gt == nil {
		return Term{"anynil", sortAny}
	}
	if b, ok := gt.(*types.Basic); ok && b.Kind() == types.UntypedNil {
		return Term{"anynil", sortAny}
	}
	box, _ := vc.U.boxFuncs(gt, t.Sort)
	return Term{"(" + box + " " + t.S + ")", sortAny}
}

// convertTo adapts a value to a destination Go type (assignment / parameter passing / conversion).
func (vc *VC) convertTo(t Term, dst types.Type) Term {
	ds := vc.U.sortOf(dst)
	if ds.Kind == KAny && t.Sort.Kind != KAny {
		// concrete -> interface
		if t.Sort.GoT == nil {
			return Term{"anynil", ds}
		}
		if b, ok := t.Sort.GoT.(*types.Basic); ok && b.Kind() == types.UntypedNil {
			return Term{"anynil", ds}
		}
		// untyped constants take their default type
		gt := t.Sort.GoT
		if b, ok := gt.(*types.Basic); ok && b.Info()&types.IsUntyped != 0 {
			gt = types.Default(gt)
			s := vc.U.sortOf(gt)
			t = Term{t.S, s}
		}
		a := vc.toAny(t)
		return Term{a.S, ds}
	}
	if ds.Kind == KAny {
		return Term{t.S, ds}
	}
	if t.Sort.GoT != nil {
		if b, ok := t.Sort.GoT.(*types.Basic); ok && b.Kind() == types.UntypedNil {
			return Term{vc.U.zero(ds), ds}
		}
	}
	return Term{t.S, ds}
}

func (vc *VC) evalSelector(st *State, x *ast.SelectorExpr) Term {
	// package-qualified identifier
	if id, ok := x.X.(*ast.Ident); ok {
		if _, isPkg := vc.info.ObjectOf(id).(*types.PkgName); isPkg {
			return vc.evalIdent(st, x.Sel)
		}
	}
	sel, ok := vc.info.Selections[x]
	if !ok {
		vc.unsupportedf(x, "selector without selection")
		return vc.fresh("unk", vc.U.sortOf(vc.typeOf(x)))
	}
	switch sel.Kind() {
	case types.FieldVal:
		base := vc.eval(st, x.X)
		return vc.selectPath(st, base, sel.Recv(), sel.Index(), x)
	case types.MethodVal:
		// method value used as a function value (bound method): opaque
		vc.note("A-METHODVAL: method value " + sel.Obj().Name() + " treated as an opaque function value")
		return vc.fresh("mval_"+sel.Obj().Name(), sortFunc)
	}
	vc.unsupportedf(x, "selector kind %v", sel.Kind())
	return vc.fresh("unk", vc.U.sortOf(vc.typeOf(x)))
}

// selectPath follows a field index path (through embedded fields) from base of Go type recv.
func (vc *VC) selectPath(st *State, base Term, recv types.Type, path []int, n ast.Node) Term {
	cur := base
	ct := recv
	for _, idx := range path {
		if el, isPtr := derefType(ct); isPtr {
			ss := vc.U.sortOf(el)
			if n != nil {
				vc.assert(st, "nil", sNot(sEq(cur.S, "0")), n.Pos(), "nil dereference (field access)")
			}
			stt := el.Underlying().(*types.Struct)
			f := &ss.Fields[idx]
			cur = vc.loadField(st, cur.S, ss, f)
			if cur.Sort != nil && cur.Sort.Kind == KSlice {
				vc.typeInvariant(st, cur) // every Go slice has a non-negative length, wherever it is stored
			}
			ct = stt.Field(idx).Type()
			continue
		}
		ss := vc.U.sortOf(ct)
		stt, ok := ct.Underlying().(*types.Struct)
		if !ok || ss.Kind != KStruct {
			vc.unsupportedf(n, "field path through %s", ct)
			return vc.fresh("unk", sortInt)
		}
		f := &ss.Fields[idx]
		cur = Term{"(" + f.Sel + " " + cur.S + ")", f.Sort}
		ct = stt.Field(idx).Type()
	}
	return cur
}

func (vc *VC) sliceLen(t Term) string { return "(" + t.Sort.Name + "_len " + t.S + ")" }
func (vc *VC) sliceArr(t Term) string { return "(" + t.Sort.Name + "_arr " + t.S + ")" }

func (vc *VC) evalIndex(st *State, x *ast.IndexExpr, commaOk bool) []Term {
	// generic function instantiation: f[T]
	if tv, ok := vc.info.Types[x.Index]; ok && tv.IsType() {
		return vc.evalMulti(st, x.X, commaOk)
	}
	base := vc.eval(st, x.X)
	bt := vc.typeOf(x.X)
	if el, isPtr := derefType(bt); isPtr { // pointer to array
		base = vc.loadRef(st, base.S, vc.U.sortOf(el))
	}
	switch base.Sort.Kind {
	case KSlice:
		i := vc.eval(st, x.Index)
		vc.assert(st, "bounds", "(and (<= 0 "+i.S+") (< "+i.S+" "+vc.sliceLen(base)+"))", x.Pos(), "slice index in range")
		return []Term{{"(select " + vc.sliceArr(base) + " " + i.S + ")", base.Sort.Elem}}
	case KArr:
		i := vc.eval(st, x.Index)
		vc.assert(st, "bounds", fmt.Sprintf("(and (<= 0 %s) (< %s %d))", i.S, i.S, base.Sort.Len), x.Pos(), "array index in range")
		return []Term{{"(select " + base.S + " " + i.S + ")", base.Sort.Elem}}
	case KStr:
		i := vc.eval(st, x.Index)
		vc.assert(st, "bounds", "(and (<= 0 "+i.S+") (< "+i.S+" (slen "+base.S+")))", x.Pos(), "string index in range")
		return []Term{{"(sat " + base.S + " " + i.S + ")", vc.U.sortOf(types.Typ[types.Uint8])}}
	case KMap:
		k := vc.eval(st, x.Index)
		k = vc.convertTo(k, base.Sort.GoT.Underlying().(*types.Map).Key())
		dom, val := vc.mapHeaps(st, base.Sort)
		in := "(select (select " + dom.S + " " + base.S + ") " + k.S + ")"
		v := "(select (select " + val.S + " " + base.S + ") " + k.S + ")"
		// reading a missing key yields the zero value; nil map read is allowed
		res := Term{sIte(sAnd(sNot(sEq(base.S, "0")), in), v, vc.U.zero(base.Sort.Elem)), base.Sort.Elem}
		// a value loaded from a map satisfies the invariant of its type (a slice has a non-negative length)
		vc.typeInvariant(st, Term{v, base.Sort.Elem})
		if commaOk {
			return []Term{res, {sAnd(sNot(sEq(base.S, "0")), in), sortBool}}
		}
		return []Term{res}
	}
	vc.unsupportedf(x, "index of %s", base.Sort.Name)
	return []Term{vc.fresh("unk", vc.U.sortOf(vc.typeOf(x)))}
}

func mapHeapNames(ms *Sort) (string, string, string, string) {
	k := smtName(ms.Key.Name) + "_" + smtName(ms.Elem.Name)
	return "MD_" + k, "(Array Int (Array " + ms.Key.Name + " Bool))", "MV_" + k, "(Array Int (Array " + ms.Key.Name + " " + ms.Elem.Name + "))"
}

func (vc *VC) mapHeaps(st *State, ms *Sort) (dom, val Term) {
	dn, ds, vn, vs := mapHeapNames(ms)
	return vc.heapGet(st, dn, ds, nil), vc.heapGet(st, vn, vs, nil)
}

func (vc *VC) evalSliceExpr(st *State, x *ast.SliceExpr) Term {
	base := vc.eval(st, x.X)
	var lo, hi Term
	if x.Low != nil {
		lo = vc.eval(st, x.Low)
	} else {
		lo = Term{"0", sortInt}
	}
	switch base.Sort.Kind {
	case KStr:
		if x.High != nil {
			hi = vc.eval(st, x.High)
		} else {
			hi = Term{"(slen " + base.S + ")", sortInt}
		}
		vc.assert(st, "slice", "(and (<= 0 "+lo.S+") (<= "+lo.S+" "+hi.S+") (<= "+hi.S+" (slen "+base.S+")))", x.Pos(), "string slice bounds")
		return Term{"(ssub " + base.S + " " + lo.S + " " + hi.S + ")", base.Sort}
	case KSlice:
		if x.High != nil {
			hi = vc.eval(st, x.High)
		} else {
			hi = Term{vc.sliceLen(base), sortInt}
		}
		// cap is not modelled: require hi <= len (stronger than Go's hi <= cap) -- sound for no-panic
		vc.assert(st, "slice", "(and (<= 0 "+lo.S+") (<= "+lo.S+" "+hi.S+") (<= "+hi.S+" "+vc.sliceLen(base)+"))", x.Pos(), "slice bounds (within len)")
		fn := vc.U.ensureSliceSub(base.Sort)
		return Term{"(" + fn + " " + base.S + " " + lo.S + " " + hi.S + ")", base.Sort}
	}
	vc.unsupportedf(x, "slice of %s", base.Sort.Name)
	return vc.fresh("unk", base.Sort)
}

func (u *Universe) ensureSliceSub(s *Sort) string {
	fn := s.Name + "_sub"
	if !u.declared["fun:"+fn] {
		u.ensureFun(fn, "("+s.Name+" Int Int) "+s.Name)
		u.axioms = append(u.axioms,
			fmt.Sprintf("(forall ((s %s) (i Int) (j Int)) (! (= (%s_len (%s s i j)) (- j i)) :pattern ((%s s i j))))", s.Name, s.Name, fn, fn),
			fmt.Sprintf("(forall ((s %s) (i Int) (j Int) (k Int)) (! (=> (and (<= 0 k) (< k (- j i))) (= (select (%s_arr (%s s i j)) k) (select (%s_arr s) (+ i k)))) :pattern ((select (%s_arr (%s s i j)) k))))", s.Name, s.Name, fn, s.Name, s.Name, fn))
	}
	return fn
}

func (vc *VC) evalComposite(st *State, x *ast.CompositeLit) Term {
	return vc.evalCompositeAs(st, x, vc.typeOf(x))
}

func (vc *VC) evalCompositeAs(st *State, x *ast.CompositeLit, t types.Type) Term {
	s := vc.U.sortOf(t)
	switch s.Kind {
	case KStruct:
		stt := t.Underlying().(*types.Struct)
		vals := make([]string, len(s.Fields))
		for i, f := range s.Fields {
			vals[i] = vc.U.zero(f.Sort)
		}
		for i, el := range x.Elts {
			if kv, ok := el.(*ast.KeyValueExpr); ok {
				name := kv.Key.(*ast.Ident).Name
				for j := range s.Fields {
					if s.Fields[j].Name == name {
						v := vc.eval(st, kv.Value)
						v = vc.convertTo(v, stt.Field(j).Type())
						vals[j] = v.S
					}
				}
			} else {
				v := vc.eval(st, el)
				v = vc.convertTo(v, stt.Field(i).Type())
				vals[i] = v.S
			}
		}
		if len(vals) == 0 {
			return Term{"mk_" + s.Name, s}
		}
		return vc.bind("lit", Term{"(mk_" + s.Name + " " + strings.Join(vals, " ") + ")", s})
	case KSlice, KArr:
		var elemT types.Type
		switch ut := t.Underlying().(type) {
		case *types.Slice:
			elemT = ut.Elem()
		case *types.Array:
			elemT = ut.Elem()
		}
		arr := vc.U.zeroArray(s.Elem)
		idx := 0
		for _, el := range x.Elts {
			var ve ast.Expr = el
			if kv, ok := el.(*ast.KeyValueExpr); ok {
				if tv, ok := vc.info.Types[kv.Key]; ok && tv.Value != nil {
					if n, ok := constant.Int64Val(tv.Value); ok {
						idx = int(n)
					}
				}
				ve = kv.Value
			}
			var v Term
			if cl, ok := ve.(*ast.CompositeLit); ok && cl.Type == nil {
				v = vc.evalCompositeTyped(st, cl, elemT)
			} else {
				v = vc.eval(st, ve)
			}
			v = vc.convertTo(v, elemT)
			arr = "(store " + arr + " " + fmt.Sprint(idx) + " " + v.S + ")"
			idx++
		}
		if s.Kind == KArr {
			return vc.bind("arr", Term{arr, s})
		}
		return vc.bind("sl", Term{fmt.Sprintf("(mk_%s %s %d)", s.Name, arr, idx), s})
	case KMap:
		ref := vc.newRef(st)
		dn, ds, vn, vs := mapHeapNames(s)
		dom := vc.heapGet(st, dn, ds, nil)
		val := vc.heapGet(st, vn, vs, nil)
		d := fmt.Sprintf("((as const (Array %s Bool)) false)", s.Key.Name)
		v := "(select " + val.S + " " + ref + ")"
		mt := t.Underlying().(*types.Map)
		for _, el := range x.Elts {
			kv := el.(*ast.KeyValueExpr)
			k := vc.convertTo(vc.eval(st, kv.Key), mt.Key())
			e := vc.convertTo(vc.eval(st, kv.Value), mt.Elem())
			d = "(store " + d + " " + k.S + " true)"
			v = "(store " + v + " " + k.S + " " + e.S + ")"
		}
		vc.heapSet(st, dn, vc.bindHeap(dn, "(store " + dom.S + " " + ref + " " + d + ")"))
		vc.heapSet(st, vn, vc.bindHeap(vn, "(store " + val.S + " " + ref + " " + v + ")"))
		return Term{ref, s}
	}
	vc.unsupportedf(x, "composite literal of %s", t)
	return vc.fresh("unk", s)
}

// evalCompositeTyped handles elided types in nested composite literals.
func (vc *VC) evalCompositeTyped(st *State, x *ast.CompositeLit, t types.Type) Term {
	if p, ok := t.Underlying().(*types.Pointer); ok {
		// &T{...} elided (go/types records the pointer type for the literal)
		v := vc.evalCompositeAs(st, x, p.Elem())
		ref := vc.newRef(st)
		vc.storeRef(st, ref, v.Sort, v.S)
		vc.initGhostFields(st, Term{ref, vc.U.sortOf(p)})
		return Term{ref, vc.U.sortOf(p)}
	}
	return vc.evalCompositeAs(st, x, t)
}

func (vc *VC) evalTypeAssert(st *State, x *ast.TypeAssertExpr, commaOk bool) []Term {
	v := vc.eval(st, x.X)
	if x.Type == nil {
		vc.unsupportedf(x, "type switch guard outside switch")
		return []Term{v}
	}
	t := vc.typeOf(x.Type)
	ts := vc.U.sortOf(t)
	if ts.Kind == KAny {
		// assertion to an interface type: dynamic type must implement it -- opaque predicate
		pred := "impl_" + smtName(shortTypeName(t))
		vc.U.ensureFun(pred, "(Int) Bool")
		// which of the dynamic types seen so far implement the interface
		if it, isIface := t.Underlying().(*types.Interface); isIface {
			for i, ct := range vc.U.typeByID {
				key := fmt.Sprintf("%s#%d", pred, i+1)
				if vc.implFacts == nil {
					vc.implFacts = map[string]bool{}
				}
				if vc.implFacts[key] {
					continue
				}
				vc.implFacts[key] = true
				if types.Implements(ct, it) {
					vc.facts = append(vc.facts, fmt.Sprintf("(%s %d)", pred, i+1))
				} else {
					vc.facts = append(vc.facts, fmt.Sprintf("(not (%s %d))", pred, i+1))
				}
			}
		}
		okT := "(" + pred + " (dyn " + v.S + "))"
		if commaOk {
			return []Term{{sIte(okT, v.S, "anynil"), ts}, {okT, sortBool}}
		}
		vc.assert(st, "tassert", okT, x.Pos(), "type assertion to "+shortTypeName(t))
		return []Term{{v.S, ts}}
	}
	_, unbox := vc.U.boxFuncs(t, ts)
	id := vc.U.typeID(t)
	okT := fmt.Sprintf("(= (dyn %s) %d)", v.S, id)
	if commaOk {
		return []Term{{sIte(okT, "("+unbox+" "+v.S+")", vc.U.zero(ts)), ts}, {okT, sortBool}}
	}
	vc.assert(st, "tassert", okT, x.Pos(), "type assertion to "+shortTypeName(t))
	return []Term{{"(" + unbox + " " + v.S + ")", ts}}
}

func (vc *VC) evalFuncLit(st *State, x *ast.FuncLit) Term {
	// a closure value: opaque non-nil function value; the literal is verified as its own unit
	t := vc.fresh("closure", sortFunc)
	vc.facts = append(vc.facts, "(> "+t.S+" 0)")
	return t
}
