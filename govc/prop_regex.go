package main

// Properties decided on the regular-expression front end (internal/regex/parser{,/nfa,/ast}): C09.

import (
	"fmt"
	"go/ast"
	"go/constant"
	"go/token"
	"os"
	"path/filepath"
	"sort"
	"strings"
)

// errorsOnlyGrow: syntactic frame obligation. In the two mapper implementations the field `errors` may be
// assigned only in the form  m.errors = errors.Join(m.errors, ...)  (so a recorded semantic error is never
// dropped or overwritten by a later mapper), and nowhere outside methods of `mappers`.
func errorsOnlyGrow(c *CheckCtx) error {
	n := 0
	for _, pp := range []string{"./internal/regex/parser/nfa", "./internal/regex/parser/ast"} {
		p, err := loadOne(c.Repo, pp)
		if err != nil {
			return err
		}
		for _, f := range p.Syntax {
			if strings.HasSuffix(p.Fset.Position(f.Pos()).Filename, "_test.go") {
				continue
			}
			ast.Inspect(f, func(nd ast.Node) bool {
				as, ok := nd.(*ast.AssignStmt)
				if !ok {
					return true
				}
				for i, l := range as.Lhs {
					sel, ok := l.(*ast.SelectorExpr)
					if !ok || sel.Sel.Name != "errors" {
						continue
					}
					if tv, ok := p.TypesInfo.Types[sel.X]; !ok || !strings.HasSuffix(tv.Type.String(), "mappers") {
						continue
					}
					n++
					good := false
					if as.Tok == token.ASSIGN && len(as.Lhs) == len(as.Rhs) {
						if call, ok := as.Rhs[i].(*ast.CallExpr); ok && exprString(call.Fun) == "errors.Join" && len(call.Args) >= 1 {
							if exprString(call.Args[0]) == exprString(l) {
								good = true
							}
						}
					}
					if !good {
						pos := p.Fset.Position(as.Pos())
						c.ExtraFindings = append(c.ExtraFindings, Finding{
							Obligation: fmt.Sprintf("%s.mappers#frame[errors-only-grow]@%s", p.PkgPath, strings.TrimPrefix(pos.Filename, c.Repo+"/")),
							What:       fmt.Sprintf("%s:%d: the semantic-error accumulator is assigned other than by m.errors = errors.Join(m.errors, ...): a recorded error can be lost", pos.Filename, pos.Line),
							Replay:     map[string]any{"kind": "syntactic frame obligation", "position": pos.String()}})
					}
				}
				return true
			})
		}
	}
	c.Notes = append(c.Notes, fmt.Sprintf("frame[errors-only-grow]: %d assignments to mappers.errors inspected (syntactic frame obligation, not SMT-discharged)", n))
	return nil
}

// escapeSetIsDocumented: the list that is both "what may follow a backslash" and "what a bare character may not be" is
// data, not code: its literal must be the set written in docs/5-definitions.md (escaped_char). A data obligation on the
// typed AST of the real source (no SMT needed: both sides are literals).
func escapeSetIsDocumented(c *CheckCtx) error {
	doc, err := os.ReadFile(filepath.Join(c.Repo, "docs/5-definitions.md"))
	if err != nil {
		return err
	}
	var want []string
	for _, line := range strings.Split(string(doc), "\n") {
		if strings.HasPrefix(strings.TrimSpace(line), "escaped_char") && strings.Contains(line, "=") {
			i := strings.Index(line, "(")
			j := strings.LastIndex(line, ")")
			if i < 0 || j < i {
				continue
			}
			for _, part := range strings.Split(line[i+1:j], "|") {
				part = strings.TrimSpace(part)
				// the alternative for the bar itself is written "|" and is cut in two by the split
				if part == "\"" {
					continue
				}
				want = append(want, strings.Trim(part, "\""))
			}
			want = append(want, "|")
		}
	}
	if len(want) < 5 {
		return fmt.Errorf("could not read the documented escape set from docs/5-definitions.md")
	}
	var got []string
	found := false
	for _, p := range c.Eng.roots {
		if !strings.HasSuffix(p.PkgPath, "internal/regex/parser") {
			continue
		}
		for _, f := range p.Syntax {
			ast.Inspect(f, func(nd ast.Node) bool {
				vs, ok := nd.(*ast.ValueSpec)
				if !ok || len(vs.Names) != 1 || vs.Names[0].Name != "escapedChars" || len(vs.Values) != 1 {
					return true
				}
				cl, ok := vs.Values[0].(*ast.CompositeLit)
				if !ok {
					return true
				}
				found = true
				for _, e := range cl.Elts {
					if tv, ok := p.TypesInfo.Types[e]; ok && tv.Value != nil {
						if v, ok := constant.Int64Val(tv.Value); ok {
							got = append(got, string(rune(v)))
						}
					}
				}
				return true
			})
		}
	}
	key := func(xs []string) string {
		ys := append([]string{}, xs...)
		sort.Strings(ys)
		return strings.Join(ys, " ")
	}
	if !found || key(got) != key(want) {
		c.ExtraFindings = append(c.ExtraFindings, Finding{
			Obligation: "regex/parser.escapedChars#literal[documented-escape-set]",
			What:       fmt.Sprintf("the escape set of the pattern grammar is not the documented one: code has {%s}, docs/5-definitions.md (escaped_char) has {%s}: a character in the code's set only is rejected when written bare and accepted after a backslash although the grammar says otherwise", key(got), key(want)),
			Replay:     map[string]any{"kind": "data obligation on the typed AST", "code_set": got, "documented_set": want}})
	}
	c.Notes = append(c.Notes, fmt.Sprintf("literal[documented-escape-set]: escapedChars has %d elements, the documented escaped_char rule %d (data obligation, not SMT-discharged)", len(got), len(want)))
	return nil
}

func init() {
	register(&PropSpec{
		ID: "C09", Level: "other",
		Pkgs:  []string{"./internal/regex/parser", "./internal/regex/parser/nfa", "./internal/regex/parser/ast"},
		Extra: func(c *CheckCtx) error {
			if err := errorsOnlyGrow(c); err != nil {
				return err
			}
			return escapeSetIsDocumented(c)
		},
		Select: []Selector{
			{Units: `regex/parser\.(Parser\.Parse|New|newStringInput|stringInput\.(Current|Remaining)|toNum|toDigit)$`},
			{Units: `regex/parser/(nfa|ast)\.Parse$`},
			{Units: `regex/parser/(nfa|ast)\.mappers\.(ToUpperBound|ToRange|ToCharRange)$`},
		},
		Explain: "Proved for all pattern strings: the top-level Parse returns ok only if the combinator consumed the WHOLE input (nothing is known about what the dependency's combinators leave over, so this holds because Parse checks) and never on the empty pattern; a repetition range whose minimum exceeds its maximum and a descending character range each record an error (both mapper sets: NFA and AST); recorded errors are never overwritten (syntactic frame obligation errors-only-grow) and nfa.Parse / ast.Parse return them, return an error on every syntax failure, and never return (nil, nil). NOT decided by this technique: 'every pattern written with the documented constructs is accepted' (inclusion of the documented CFG in the ordered-choice combinator grammar is not a per-function contract); no bounded enumeration has been built for it.",
		Lemmas:  []string{"L-COMB: the shape of the comb.Result a mapper receives is fixed by the combinator expression feeding it in parser.New (CONCAT: list of component results in order; OPT: the result or Empty{}; REP1: non-empty list) - assumed per mapper (assumes clauses), read off the 120 lines of the dependency's CONCAT/OPT/REP/ALT"},
		Trusted: []string{"assumed contracts: comb.Result.Get, errors.Join (nil iff both nil), fmt.Errorf, combinator constructors (non-nil parsers)", "opaque (trusted frame only): ast.indexChars, ast.computeFollows, runeRangesToNFA/runeRangesToAlt"},
	})
}
