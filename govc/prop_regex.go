package main

// Properties decided on the regular-expression front end (internal/regex/parser{,/nfa,/ast}): C09.

import (
	"fmt"
	"go/ast"
	"go/token"
	"strings"
)

// errorsOnlyGrow: syntactic frame obligation. In the two mapper implementations the field `errors` may be
// assigned only in the form  m.errors = errors.Join(m.errors, ...)  (so a recorded semantic error is never
// dropped or overwritten by a later mapper), and nowhere outside methods of `mappers`.
func errorsOnlyGrow(c *CheckCtx) error {
	n := 0
	for _, pp := range []string{"./internal/regex/parser/nfa", "./internal/regex/parser/ast"} {
		p, err := loadOne(c.Repo, pp)
		if err != nil {
			return err
		}
		for _, f := range p.Syntax {
			if strings.HasSuffix(p.Fset.Position(f.Pos()).Filename, "_test.go") {
				continue
			}
			ast.Inspect(f, func(nd ast.Node) bool {
				as, ok := nd.(*ast.AssignStmt)
				if !ok {
					return true
				}
				for i, l := range as.Lhs {
					sel, ok := l.(*ast.SelectorExpr)
					if !ok || sel.Sel.Name != "errors" {
						continue
					}
					if tv, ok := p.TypesInfo.Types[sel.X]; !ok || !strings.HasSuffix(tv.Type.String(), "mappers") {
						continue
					}
					n++
					good := false
					if as.Tok == token.ASSIGN && len(as.Lhs) == len(as.Rhs) {
						if call, ok := as.Rhs[i].(*ast.CallExpr); ok && exprString(call.Fun) == "errors.Join" && len(call.Args) >= 1 {
							if exprString(call.Args[0]) == exprString(l) {
								good = true
							}
						}
					}
					if !good {
						pos := p.Fset.Position(as.Pos())
						c.ExtraFindings = append(c.ExtraFindings, Finding{
							Obligation: fmt.Sprintf("%s.mappers#frame[errors-only-grow]@%s", p.PkgPath, strings.TrimPrefix(pos.Filename, c.Repo+"/")),
							What:       fmt.Sprintf("%s:%d: the semantic-error accumulator is assigned other than by m.errors = errors.Join(m.errors, ...): a recorded error can be lost", pos.Filename, pos.Line),
							Replay:     map[string]any{"kind": "syntactic frame obligation", "position": pos.String()}})
					}
				}
				return true
			})
		}
	}
	c.Notes = append(c.Notes, fmt.Sprintf("frame[errors-only-grow]: %d assignments to mappers.errors inspected (syntactic frame obligation, not SMT-discharged)", n))
	return nil
}

func init() {
	register(&PropSpec{
		ID: "C09", Level: "other",
		Pkgs:  []string{"./internal/regex/parser", "./internal/regex/parser/nfa", "./internal/regex/parser/ast"},
		Extra: errorsOnlyGrow,
		Select: []Selector{
			{Units: `regex/parser\.(Parser\.Parse|New|newStringInput|stringInput\.(Current|Remaining)|toNum|toDigit)$`},
			{Units: `regex/parser/(nfa|ast)\.Parse$`},
			{Units: `regex/parser/(nfa|ast)\.mappers\.(ToUpperBound|ToRange|ToCharRange)$`},
		},
		Explain: "Proved for all pattern strings: the top-level Parse returns ok only if the combinator consumed the WHOLE input (nothing is known about what the dependency's combinators leave over, so this holds because Parse checks) and never on the empty pattern; a repetition range whose minimum exceeds its maximum and a descending character range each record an error (both mapper sets: NFA and AST); recorded errors are never overwritten (syntactic frame obligation errors-only-grow) and nfa.Parse / ast.Parse return them, return an error on every syntax failure, and never return (nil, nil). NOT decided by this technique: 'every pattern written with the documented constructs is accepted' (inclusion of the documented CFG in the ordered-choice combinator grammar is not a per-function contract); no bounded enumeration has been built for it.",
		Lemmas:  []string{"L-COMB: the shape of the comb.Result a mapper receives is fixed by the combinator expression feeding it in parser.New (CONCAT: list of component results in order; OPT: the result or Empty{}; REP1: non-empty list) - assumed per mapper (assumes clauses), read off the 120 lines of the dependency's CONCAT/OPT/REP/ALT"},
		Trusted: []string{"assumed contracts: comb.Result.Get, errors.Join (nil iff both nil), fmt.Errorf, combinator constructors (non-nil parsers)", "opaque (trusted frame only): ast.indexChars, ast.computeFollows, runeRangesToNFA/runeRangesToAlt"},
	})
}
