package main

// Callback refinement (a function literal passed where the callee's contract declares a callback must
// implement that callback's contract) and frame obligations (a function writes only what it declares).

import (
	"fmt"
	"go/ast"
	"go/types"
	"sort"
	"strings"
)

// refineCallbacks: for every callback parameter of the callee bound to a function literal at this call,
// generate the obligations "provides => literal.requires" and "literal.ensures => callback.ensures".
func (vc *VC) refineCallbacks(st *State, x *ast.CallExpr, fc *FuncContract, ci *calleeInfo, recv *Term, args []Term, callOrd int) {
	sig := ci.fn.Origin().Type().(*types.Signature)
	for _, cb := range fc.Callbacks {
		idx := -1
		for i := 0; i < sig.Params().Len(); i++ {
			if sig.Params().At(i).Name() == cb.Name {
				idx = i
			}
		}
		if idx < 0 || idx >= len(x.Args) {
			continue
		}
		lit, ok := ast.Unparen(x.Args[idx]).(*ast.FuncLit)
		if !ok {
			vc.note(fmt.Sprintf("A-CALLBACK<%s>: argument %s of %s is not a function literal; its conformance to the callback contract is assumed", vc.position(x.Pos()), cb.Name, shortKey(fc.Key)))
			continue
		}
		cu := vc.eng.unitByLit[lit]
		if cu == nil {
			vc.specErrors = append(vc.specErrors, "no unit for function literal passed as "+cb.Name)
			continue
		}
		cc := vc.eng.contracts[cu.Key]
		if cc == nil {
			vc.specErrors = append(vc.specErrors, fmt.Sprintf("function literal %s passed as callback %s of %s has no contract", cu.Key, cb.Name, shortKey(fc.Key)))
			continue
		}
		cc.Used = true
		vc.refineOne(st, x, fc, ci, cb, cc, cu, recv, args, callOrd)
	}
}

func (vc *VC) refineOne(st *State, x *ast.CallExpr, fc *FuncContract, ci *calleeInfo, cb *CallbackSpec, cc *FuncContract, cu *Unit, recv *Term, args []Term, callOrd int) {
	tag := fmt.Sprintf("%d:%s", callOrd, cb.Name)
	// an arbitrary moment during the callee's execution: every heap unknown, the caller's locals unchanged
	s0 := st.clone()
	vc.havocAllHeaps(s0)
	vc.havocClientInv(s0)
	lsig := cu.Sig
	var cargs []Term
	for i := 0; i < lsig.Params().Len(); i++ {
		p := lsig.Params().At(i)
		t := vc.fresh("cbarg_"+p.Name(), vc.U.sortOf(p.Type()))
		vc.typeInvariant(s0, t)
		cargs = append(cargs, t)
	}
	// callee-side view
	cbCtx := vc.newSpecCtx(fc, s0, s0)
	cbCtx.typeArgs = ci.typeArgs
	cbCtx.cbinv = vc.contract
	vc.bindParams(cbCtx, fc, ci.fn, recv, args)
	for i, a := range cargs {
		cbCtx.vars[fmt.Sprintf("arg%d", i)] = a
	}
	for _, g := range cb.Ghosts {
		cbCtx.vars[g.Name] = vc.fresh("gh_"+g.Name, sortInt)
	}
	for _, p := range cb.Provides {
		vc.assume(s0, cbCtx.tr(p.Expr).S)
	}
	// literal-side view (its contract is written over its own parameter names and the captured locals)
	clCtx := vc.newSpecCtx(cc, s0, s0)
	bindLit := func(c *SpecCtx) {
		for i, a := range cargs {
			p := lsig.Params().At(i)
			if p.Name() != "" && p.Name() != "_" {
				c.vars[p.Name()] = a
			}
			if i < len(cc.ParamNames) && cc.ParamNames[i] != "" {
				c.vars[cc.ParamNames[i]] = a
			}
		}
	}
	bindLit(clCtx)
	for k, r := range append(append([]*Clause{}, cc.Captures...), cc.Requires...) {
		t := clCtx.tr(r.Expr)
		vc.assertNamed(s0, fmt.Sprintf("refine[%s,pre %d]", tag, k), "refine", t.S, x.Pos(),
			fmt.Sprintf("the callee's guarantees for callback %s imply the precondition of %s: %s", cb.Name, shortKey(cc.Key), r.Text))
	}
	// effect of the literal by its own contract
	s1 := s0.clone()
	old := s0.clone()
	vc.havocClientInv(s1)
	clCtx.cur, clCtx.old = s1, old
	for _, m := range cc.Modifies {
		vc.havocLocation(clCtx, s1, m)
		vc.checkCallbackFrame(m, lsig, cc, cb, fc)
	}
	a := vc.allocCounter(s1)
	na := vc.fresh("alloc", sortInt)
	vc.facts = append(vc.facts, "(>= "+na.S+" "+a+")")
	s1.heaps[allocHeap] = na
	results := vc.freshResults(s1, lsig, "cbres")
	for i, r := range results {
		clCtx.vars[fmt.Sprintf("result%d", i)] = r
	}
	if len(results) > 0 {
		clCtx.vars["result"] = results[0]
	}
	// ghost state the literal's own callbacks maintain is unconstrained here
	for _, e := range cc.Ensures {
		if mentionsCallbackGhost(e.Expr) {
			continue
		}
		vc.assume(s1, clCtx.tr(e.Expr).S)
	}
	cbCtx.cur, cbCtx.old = s1, old
	for i, r := range results {
		cbCtx.vars[fmt.Sprintf("result%d", i)] = r
	}
	if len(results) > 0 {
		cbCtx.vars["result"] = results[0]
	}
	for k, e := range cb.Ensures {
		t := cbCtx.tr(e.Expr)
		vc.assertNamed(s1, fmt.Sprintf("refine[%s,post %d]", tag, k), "refine", t.S, x.Pos(),
			fmt.Sprintf("the postcondition of %s implies what the callee assumes of callback %s: %s", shortKey(cc.Key), cb.Name, e.Text))
	}
}

func mentionsCallbackGhost(e SExpr) bool {
	names := map[string]bool{}
	collectCalls(e, names)
	return names["ncalls"] || names["lasterr"] || names["lastres"]
}

// checkCallbackFrame: a literal used as a frameless callback may only write state rooted at variables it
// captures from the caller (never at its own parameters or at the callee's receiver).
func (vc *VC) checkCallbackFrame(m *Clause, lsig *types.Signature, cc *FuncContract, cb *CallbackSpec, fc *FuncContract) {
	if !cb.Frameless {
		return
	}
	root := specRoot(m.Expr)
	bad := root == "heap" || root == "everything" || root == ""
	for i := 0; i < lsig.Params().Len(); i++ {
		if lsig.Params().At(i).Name() == root {
			bad = true
		}
	}
	if vc.unit.Sig != nil && vc.unit.Sig.Recv() != nil && vc.unit.Sig.Recv().Name() == root {
		bad = true
	}
	if bad {
		vc.specErrors = append(vc.specErrors, fmt.Sprintf("%s:%d: %s is passed as callback %s of %s, which assumes callbacks write only their own state; its frame %q is rooted at %q",
			m.File, m.Line, shortKey(cc.Key), cb.Name, shortKey(fc.Key), m.Text, root))
	}
}

func specRoot(e SExpr) string {
	switch x := e.(type) {
	case *SIdent:
		return x.Name
	case *SSel:
		return specRoot(x.X)
	case *SIndex:
		return specRoot(x.X)
	case *SCall:
		if len(x.Args) > 0 {
			return specRoot(x.Args[0])
		}
	}
	return ""
}

// ---------- frame obligations ----------

type frameTarget struct {
	heap string
	key  string // "" = whole heap
}

// frameTargets resolves one `modifies` clause (in the entry state) to heap locations.
func (vc *VC) frameTargets(ctx *SpecCtx, m *Clause) ([]frameTarget, bool) {
	switch x := m.Expr.(type) {
	case *SIdent:
		if x.Name == "heap" || x.Name == "everything" {
			return nil, true
		}
		if x.Name == "mapcontents" {
			return []frameTarget{{"$maps", ""}}, false
		}
		return nil, false // package variable: not a heap location
	case *SSel:
		ctx.inOld = true
		base := ctx.tr(x.X)
		ctx.inOld = false
		if gf := vc.eng.lookupGhostField(base.Sort, x.Sel); gf != nil {
			fs := ctx.ghostFieldSort(base, gf)
			return []frameTarget{{ghostHeapName(gf.Owner, gf.Name) + "_" + smtName(fs.Name), base.S}}, false
		}
		if base.Sort.Kind == KRef && base.Sort.Elem != nil && base.Sort.Elem.Kind == KStruct {
			var out []frameTarget
			for i := range base.Sort.Elem.Fields {
				f := &base.Sort.Elem.Fields[i]
				if x.Sel == "all" || x.Sel == "*" || f.Name == x.Sel {
					hn, _ := fieldHeapName(base.Sort.Elem, f)
					out = append(out, frameTarget{hn, base.S})
				}
			}
			return out, false
		}
	case *SCall:
		if id, ok := x.Fun.(*SIdent); ok && id.Name == "all" && len(x.Args) == 1 {
			if sel, ok := x.Args[0].(*SSel); ok {
				tt, ts := ctx.resolveType(specText(sel.X))
				if tt != nil && ts.Kind == KStruct {
					if f := ts.field(sel.Sel); f != nil {
						hn, _ := fieldHeapName(ts, f)
						return []frameTarget{{hn, ""}}, false
					}
				}
				if hn, _, ok := vc.ghostFieldHeapOfType(ctx, tt, sel.Sel); ok {
					return []frameTarget{{hn, ""}}, false
				}
			}
		}
	}
	return nil, false
}

// frameSpec caches the declared frame of the unit under verification.
type frameSpec struct {
	everything bool
	allowed    map[string][]string
	whole      map[string]bool
}

func (vc *VC) frame() *frameSpec {
	if vc.frameCache != nil {
		return vc.frameCache
	}
	fs := &frameSpec{allowed: map[string][]string{}, whole: map[string]bool{}}
	vc.frameCache = fs
	if vc.contract == nil {
		fs.everything = true
		return fs
	}
	ctx := vc.newSpecCtx(vc.contract, vc.entry, vc.entry)
	vc.bindOwnParams(ctx)
	for _, m := range vc.contract.Modifies {
		ts, all := vc.frameTargets(ctx, m)
		if all {
			fs.everything = true
		}
		for _, t := range ts {
			if t.key == "" {
				fs.whole[t.heap] = true
			} else {
				fs.allowed[t.heap] = append(fs.allowed[t.heap], t.key)
			}
		}
	}
	return fs
}

// frameGoal: heap k with current value cur agrees with its entry value outside the declared frame
// and outside objects allocated by this call. ok=false if nothing has to be shown.
func (vc *VC) frameGoal(st *State, k string, cur Term) (string, bool) {
	fs := vc.frame()
	if fs.everything || k == allocHeap || fs.whole[k] || (fs.whole["$maps"] && isMapHeap(k)) {
		return "", false
	}
	ent, ok := vc.entry.heaps[k]
	if !ok {
		ent, ok = vc.heap0[k]
	}
	if !ok || ent.S == cur.S {
		return "", false
	}
	sn := vc.heapSorts[k]
	if !strings.HasPrefix(sn, "(Array ") {
		return "", false
	}
	key := sn[7:]
	if i := strings.IndexByte(key, ' '); i >= 0 {
		key = key[:i]
	}
	var conds []string
	for _, a := range fs.allowed[k] {
		conds = append(conds, sNot(sEq("x!f", a)))
	}
	if key == "Int" {
		conds = append(conds, "(<= x!f "+vc.allocCounter(vc.entry)+")") // objects allocated by this call are outside every caller's view
	} else if strings.HasPrefix(k, "G_") && st != nil {
		// objects held in interface values: where the owner type declares the identity ghost field `self` (a pointer
		// allocated together with the object), an object whose identity was allocated by this call is new as well
		rest := k[2:]
		if i := strings.IndexByte(rest, '_'); i > 0 {
			sn := "G_" + rest[:i] + "_self_Int"
			sh, ok := st.heaps[sn]
			if !ok {
				sh, ok = vc.entry.heaps[sn]
			}
			if !ok {
				sh, ok = vc.heap0[sn]
			}
			if ok && !strings.HasPrefix(rest[i:], "_self_") {
				conds = append(conds, "(<= (select "+sh.S+" x!f) "+vc.allocCounter(vc.entry)+")")
			}
		}
	}
	return fmt.Sprintf("(forall ((x!f %s)) (! (=> %s (= (select %s x!f) (select %s x!f))) :pattern ((select %s x!f))))", key, sAnd(conds...), cur.S, ent.S, cur.S), true
}

// frameObligations: every heap written on some path is unchanged outside the declared frame.
func (vc *VC) frameObligations(final *State) {
	if vc.contract == nil || final.dead {
		return
	}
	// ghost package state not named in a modifies clause must be unchanged
	listed := map[string]bool{}
	for _, m := range vc.contract.Modifies {
		if id, ok := m.Expr.(*SIdent); ok {
			listed[id.Name] = true
		}
	}
	var gnames []string
	for n := range vc.eng.ghostVars {
		gnames = append(gnames, n)
	}
	sort.Strings(gnames)
	for _, n := range gnames {
		obj := vc.eng.ghostVarObj[n]
		cur, ok := final.vars[obj]
		if !ok || listed[n] || listed["everything"] {
			continue
		}
		ent := vc.readGhostVar(vc.entry, vc.eng.ghostVars[n])
		if ent.S == cur.S {
			continue
		}
		o := &Obligation{Name: fmt.Sprintf("%s#frame[ghost %s]", vc.unit.Key, n), Kind: "frame", Unit: vc.unit.Key, Pos: vc.position(vc.unit.Body.Pos()),
			Desc: "ghost state " + n + " is not in the modifies clause and must be unchanged", NFacts: len(vc.facts), Guard: final.guard, Goal: sEq(cur.S, ent.S), vc: vc}
		vc.obls = append(vc.obls, o)
	}
	if vc.frame().everything {
		return
	}
	var names []string
	for k := range final.heaps {
		names = append(names, k)
	}
	sort.Strings(names)
	for _, k := range names {
		goal, ok := vc.frameGoal(final, k, final.heaps[k])
		if !ok {
			continue
		}
		o := &Obligation{Name: fmt.Sprintf("%s#frame[%s]", vc.unit.Key, k), Kind: "frame", Unit: vc.unit.Key, Pos: vc.position(vc.unit.Body.Pos()),
			Desc: "writes to " + k + " stay inside the declared modifies clause (or objects allocated by the call)", NFacts: len(vc.facts), Guard: final.guard, Goal: goal, vc: vc}
		vc.obls = append(vc.obls, o)
	}
}

// frameAssume / frameAssert: the frame condition as an implicit loop invariant.
func (vc *VC) frameAssume(st *State, heaps map[string]bool) {
	if vc.contract == nil || vc.frame().everything {
		return
	}
	var names []string
	for k := range heaps {
		names = append(names, k)
	}
	sort.Strings(names)
	for _, k := range names {
		if cur, ok := st.heaps[k]; ok {
			if goal, ok := vc.frameGoal(st, k, cur); ok {
				vc.assume(st, goal)
			}
		}
	}
}

func (vc *VC) frameAssert(st *State, heaps map[string]bool, ord int, pos ast.Node) {
	if vc.contract == nil || vc.frame().everything || st.dead {
		return
	}
	var names []string
	for k := range heaps {
		names = append(names, k)
	}
	sort.Strings(names)
	for _, k := range names {
		if cur, ok := st.heaps[k]; ok {
			if goal, ok := vc.frameGoal(st, k, cur); ok {
				vc.assertNamed(st, fmt.Sprintf("inv-frame[%d,%s]", ord, k), "frame", goal, pos.Pos(), "loop body writes to "+k+" stay inside the declared frame")
			}
		}
	}
}
