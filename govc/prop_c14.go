package main

import "strings"

// C14 — no input crashes or hangs emerge: the zero-annotation safety sweep (nil dereference, index and slice
// bounds, type assertions, writes to nil maps, explicit panics, division, sized-integer overflow, loop/recursion
// termination where a measure is declared) over every function of the repository that is under contract,
// plus "success never comes with a nil result" and the exit-status obligations of main.

const safetyKinds = `^(nil|bounds|slice|tassert|mapnil|div|ovf|panic|term|vacuity)$`

func init() {
	register(&PropSpec{
		ID: "C14", Level: "other",
		Pkgs: []string{"./cmd/emerge", "./internal/command", "./internal/generate/golang", "./internal/ebnf/lexer", "./internal/ebnf/parser",
			"./internal/ebnf/parser/spec", "./internal/regex/parser", "./internal/regex/parser/nfa", "./internal/regex/parser/ast"},
		Prepare: prepareAll,
		// bounded stand-in for the dependency reader (see C13): only the non-termination class belongs to this property
		Extra: func(c *CheckCtx) error {
			if err := conformInput(c, map[string]bool{"lexeme-loop-diverges": true}); err != nil {
				return err
			}
			// bounded stand-in for the dependency's table builder (see C06): only its panics belong to this property
			n := len(c.ExtraFindings)
			if err := lalrConformance(c); err != nil {
				return err
			}
			kept := c.ExtraFindings[:n]
			for _, f := range c.ExtraFindings[n:] {
				if strings.Contains(f.What, "panicked") {
					kept = append(kept, f)
				}
			}
			c.ExtraFindings = kept
			return nil
		},
		OnlyContracted: true,
		Select: []Selector{
			{Units: `emerge/(cmd/emerge|internal/command|internal/generate/golang|internal/ebnf/lexer|internal/ebnf/parser|internal/ebnf/parser/spec|internal/regex/parser|internal/regex/parser/nfa|internal/regex/parser/ast)\.`, Kinds: safetyKinds},
			{Units: `(ebnf/parser/spec|regex/parser/nfa|regex/parser/ast)\.Parse$`, Names: `#post(-int)?\[(never-nil-nil|syntax-failure-returned|recorded-errors-returned)\]`},
			{Units: `ebnf/parser\.Parser\.ParseAndEvaluate$`, Kinds: `^post$`},
			// the regex mappers hand a non-nil automaton up the chain (a nil one is dereferenced by the next mapper)
			{Units: `regex/parser/nfa\.`, Names: `#post\[(never-nil|automaton)\]`},
			{Units: `regex/parser/ast\.`, Names: `#post\[(never-nil|node)\]`},
			// the runes that index tables and bound loops in the mappers are code points
			{Units: `regex/parser\.(toUnicodeChar|toASCIIChar)$`, Names: `#post\[code-point\]`},
			{Units: `cmd/emerge\.main$`, Kinds: `^(callsite)$`},
		},
		Explain: "Proved (all inputs, no bound): every nil dereference, index/slice bound, type assertion, write to a nil map, explicit panic, division and sized-integer overflow obligation generated with zero annotation for every repository function that is under contract (listed in coverage.functions_under_contract; thin preconditions only: representation invariants of the symbol table, the LR value discipline L-STACK for the reduce actions, combinator shapes L-COMB for the regex mappers under contract), termination of the loops/recursions that declare a measure (NextToken, the pop loops), spec.Parse / nfa.Parse / ast.Parse never return (nil, nil) and return every recorded or syntactic error, and main reaches os.Exit(0) only for -help, -version or a Run that returned nil (every other path prints through Errorf and exits 1; no reachable panic in main). NOT decided: functions listed in coverage.functions_not_under_contract (notably the typed-tree builder ebnf/parser/ast and most regex mappers), and all dependency code an input executes (github.com/moorara/algo: assumed panic-free and terminating, A-DEP/A-TERM) - which is why the level is 'other', not 'proof'. No bounded fuzz stand-in has been built.",
		Lemmas:  []string{"L-STACK (see C12)", "L-COMB (see C09)"},
		Trusted: []string{"dependency functions neither panic nor diverge (A-DEP, A-TERM): assumed contracts listed in coverage.assumed_contracts", "A-INT: int arithmetic is mathematical (overflow of int is not checked; sized integers are)"},
	})
}
