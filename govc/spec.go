package main

// Translation of contract expressions to SMT terms in a symbolic state.

import (
	"fmt"
	"go/constant"
	"go/types"
	"os"
	"strconv"
	"strings"

	"golang.org/x/tools/go/packages"
)

type SpecCtx struct {
	vc       *VC
	cur, old *State
	vars     map[string]Term
	pkg      *packages.Package // home package of the contract text
	cf       *ContractFile
	typeArgs map[string]types.Type
	inOld    bool
	noState  bool // spec func bodies / axioms: no program state
	errs     []string
	where    string
	depth    int
	snap     *loopSnap
	inTrigger bool
	oldVars  map[string]Term // parameter values inside old(): slices whose elements the callee mutates
	cbinv    *FuncContract // contract whose `cbinv` clause interprets the abstract callback invariant (nil = abstract)
}

func (vc *VC) newSpecCtx(fc *FuncContract, cur, old *State) *SpecCtx {
	ctx := &SpecCtx{vc: vc, cur: cur, old: old, vars: map[string]Term{}, typeArgs: map[string]types.Type{}}
	if fc != nil {
		ctx.cf = vc.eng.fileOf[fc]
		ctx.where = fc.Key
	}
	ctx.pkg = vc.pkg
	if ctx.cf != nil {
		path := ctx.cf.PkgPath
		if fc != nil && fc.PkgPath != "" {
			path = fc.PkgPath
		}
		if p := vc.eng.pkgByPath(path); p != nil {
			ctx.pkg = p
		}
		vc.usedFiles[ctx.cf] = true
	}
	return ctx
}

func (c *SpecCtx) errorf(f string, a ...any) Term {
	msg := fmt.Sprintf(f, a...)
	c.errs = append(c.errs, msg)
	c.vc.specErrors = append(c.vc.specErrors, c.where+": "+msg)
	return Term{"false", sortBool}
}

func (c *SpecCtx) state() *State {
	if c.inOld && c.old != nil {
		return c.old
	}
	return c.cur
}

// specIn translates a clause of the unit's own contract in a given state (old = entry state).
func (vc *VC) specIn(st *State, cl *Clause) Term {
	ctx := vc.newSpecCtx(vc.contract, st, vc.entry)
	ctx.typeArgs = vc.unitTypeArgs
	if n := len(vc.loopStack); n > 0 {
		ctx.snap = vc.loopStack[n-1]
	}
	vc.bindOwnParams(ctx)
	return ctx.tr(cl.Expr)
}

// bindOwnParams makes "this" an alias of the receiver for the unit's own contract.
func (vc *VC) bindOwnParams(ctx *SpecCtx) {
	if vc.unit.Sig != nil && vc.unit.Sig.Recv() != nil {
		r := vc.unit.Sig.Recv()
		if t, ok := vc.entry.vars[r]; ok {
			ctx.vars["this"] = t
			if vc.contract != nil && vc.contract.RecvName != "" && vc.contract.RecvName != r.Name() {
				ctx.vars[vc.contract.RecvName] = t
			}
		}
	}
	if vc.contract != nil {
		// header parameter names as aliases
		if vc.unit.Sig != nil {
			ps := vc.unit.Sig.Params()
			for i := 0; i < ps.Len() && i < len(vc.contract.ParamNames); i++ {
				if n := vc.contract.ParamNames[i]; n != "" && n != ps.At(i).Name() {
					if t, ok := ctx.cur.vars[ps.At(i)]; ok {
						ctx.vars[n] = t
					}
				}
			}
		}
	}
}

// resolveType parses a type written in contract text.
func (c *SpecCtx) resolveType(s string) (types.Type, *Sort) {
	s = strings.TrimSpace(s)
	u := c.vc.U
	switch {
	case s == "int":
		return types.Typ[types.Int], sortInt
	case s == "bool":
		return types.Typ[types.Bool], sortBool
	case s == "string":
		return types.Typ[types.String], sortStr
	case s == "rune":
		t := types.Typ[types.Int32]
		return t, u.sortOf(t)
	case s == "byte":
		t := types.Typ[types.Uint8]
		return t, u.sortOf(t)
	case s == "any":
		return types.NewInterfaceType(nil, nil), sortAny
	case strings.HasPrefix(s, "fmap["):
		j := matchBracket(s, 4)
		if j > 0 {
			_, ks := c.resolveType(s[5:j])
			_, vs := c.resolveType(s[j+1:])
			return nil, &Sort{Kind: KSet, Name: "(Array " + ks.Name + " " + vs.Name + ")", Key: ks, Elem: vs, IsMap: true}
		}
	case strings.HasPrefix(s, "set[") && strings.HasSuffix(s, "]"):
		_, es := c.resolveType(s[4 : len(s)-1])
		return nil, u.setSort(es)
	case strings.HasPrefix(s, "seq[") && strings.HasSuffix(s, "]"):
		et, es := c.resolveType(s[4 : len(s)-1])
		if et != nil {
			return types.NewSlice(et), u.sortOf(types.NewSlice(et))
		}
		return nil, u.sliceSort(es)
	case strings.HasPrefix(s, "[]"):
		et, es := c.resolveType(s[2:])
		if et != nil {
			t := types.NewSlice(et)
			return t, u.sortOf(t)
		}
		return nil, u.sliceSort(es)
	case strings.HasPrefix(s, "*"):
		et, _ := c.resolveType(s[1:])
		if et != nil {
			t := types.NewPointer(et)
			return t, u.sortOf(t)
		}
	case strings.HasPrefix(s, "map["):
		j := matchBracket(s, 3)
		if j > 0 {
			kt, _ := c.resolveType(s[4:j])
			vt, _ := c.resolveType(s[j+1:])
			if kt != nil && vt != nil {
				t := types.NewMap(kt, vt)
				return t, u.sortOf(t)
			}
		}
	}
	if t, ok := c.typeArgs[s]; ok {
		return t, u.sortOf(t)
	}
	// generic instantiation Name[Args]
	base, targs := s, ""
	if i := strings.Index(s, "["); i > 0 && strings.HasSuffix(s, "]") {
		base, targs = s[:i], s[i+1:len(s)-1]
	}
	var obj types.Object
	if i := strings.LastIndex(base, "."); i >= 0 {
		pn, tn := base[:i], base[i+1:]
		if p := c.findPackage(pn); p != nil {
			obj = p.Scope().Lookup(tn)
		}
	} else {
		if c.pkg != nil {
			obj = c.pkg.Types.Scope().Lookup(base)
		}
		if obj == nil {
			obj = types.Universe.Lookup(base)
		}
	}
	if tn, ok := obj.(*types.TypeName); ok {
		t := tn.Type()
		if targs != "" {
			if n, ok := t.(*types.Named); ok {
				var as []types.Type
				for _, a := range splitTop(targs, ',') {
					at, _ := c.resolveType(a)
					if at == nil {
						c.errorf("cannot resolve type argument %q", a)
						return nil, sortInt
					}
					as = append(as, at)
				}
				inst, err := types.Instantiate(nil, n, as, false)
				if err == nil {
					t = inst
				}
			}
		}
		return t, u.sortOf(t)
	}
	c.errorf("cannot resolve type %q", s)
	return nil, sortInt
}

func matchBracket(s string, i int) int {
	d := 0
	for j := i; j < len(s); j++ {
		switch s[j] {
		case '[':
			d++
		case ']':
			d--
			if d == 0 {
				return j
			}
		}
	}
	return -1
}

func (c *SpecCtx) findPackage(name string) *types.Package {
	if c.cf != nil {
		if p, ok := c.cf.Imports[name]; ok {
			if pk := c.vc.eng.pkgByPath(p); pk != nil {
				return pk.Types
			}
		}
	}
	if c.pkg != nil {
		if c.pkg.Types.Name() == name {
			return c.pkg.Types
		}
		for _, imp := range c.pkg.Types.Imports() {
			if imp.Name() == name {
				return imp
			}
		}
	}
	// any loaded package with that name
	for _, p := range c.vc.eng.allPkgs {
		if p.Types != nil && p.Types.Name() == name {
			return p.Types
		}
	}
	return nil
}

func (c *SpecCtx) tr(e SExpr) Term {
	vc := c.vc
	switch x := e.(type) {
	case *SIntLit:
		if strings.HasPrefix(x.V, "-") {
			return Term{"(- " + x.V[1:] + ")", sortInt}
		}
		return Term{x.V, sortInt}
	case *SStrLit:
		return Term{vc.U.lit(x.V), sortStr}
	case *SBoolLit:
		if x.V {
			return Term{"true", sortBool}
		}
		return Term{"false", sortBool}
	case *SIdent:
		return c.trIdent(x.Name)
	case *SUnary:
		v := c.tr(x.X)
		if x.Op == "!" {
			return Term{sNot(v.S), sortBool}
		}
		return Term{"(- " + v.S + ")", v.Sort}
	case *SBinary:
		return c.trBinary(x)
	case *SIte:
		cc, a, b := c.tr(x.C), c.tr(x.A), c.tr(x.B)
		a, b = c.unify(a, b)
		return Term{sIte(cc.S, a.S, b.S), a.Sort}
	case *SLet:
		v := c.tr(x.Val)
		saved, had := c.vars[x.Name]
		c.vars[x.Name] = v
		b := c.tr(x.Body)
		if had {
			c.vars[x.Name] = saved
		} else {
			delete(c.vars, x.Name)
		}
		return b
	case *SQuant:
		saved := map[string]*Term{}
		var decl []string
		var ranges []string
		for _, qv := range x.Vars {
			_, s := c.resolveType(qv.Type)
			if t, ok := c.vars[qv.Name]; ok {
				tt := t
				saved[qv.Name] = &tt
			} else {
				saved[qv.Name] = nil
			}
			// unique per quantifier instance: spec functions are inlined, and an argument mentioning a bound
			// variable of the caller must not be captured by a like-named bound variable of the body
			c.vc.nquant++
			nm := fmt.Sprintf("q_%s_%d", qv.Name, c.vc.nquant)
			c.vars[qv.Name] = Term{nm, s}
			decl = append(decl, "("+nm+" "+s.Name+")")
			if s.Kind == KInt && s.Bits != 0 {
				if lo, hi, ok := s.rangeOf(); ok {
					ranges = append(ranges, "(<= "+lo+" "+nm+")", "(<= "+nm+" "+hi+")")
				}
			}
		}
		body := c.tr(x.Body)
		var pats []string
		for _, tr := range x.Trig {
			var ps []string
			c.inTrigger = true
			for _, t := range tr {
				ps = append(ps, c.tr(t).S)
			}
			c.inTrigger = false
			pats = append(pats, ":pattern ("+strings.Join(ps, " ")+")")
		}
		for n, t := range saved {
			if t == nil {
				delete(c.vars, n)
			} else {
				c.vars[n] = *t
			}
		}
		b := body.S
		if len(ranges) > 0 {
			if x.Forall {
				b = sImp(sAnd(ranges...), b)
			} else {
				b = sAnd(append(ranges, b)...)
			}
		}
		if len(pats) > 0 {
			b = "(! " + b + " " + strings.Join(pats, " ") + ")"
		}
		q := "exists"
		if x.Forall {
			q = "forall"
		}
		return Term{"(" + q + " (" + strings.Join(decl, " ") + ") " + b + ")", sortBool}
	case *SSel:
		return c.trSel(x)
	case *SIndex:
		base := c.tr(x.X)
		i := c.tr(x.I)
		switch base.Sort.Kind {
		case KSlice:
			return Term{"(select (" + base.Sort.Name + "_arr " + base.S + ") " + i.S + ")", base.Sort.Elem}
		case KArr:
			return Term{"(select " + base.S + " " + i.S + ")", base.Sort.Elem}
		case KStr:
			return Term{"(sat " + base.S + " " + i.S + ")", sortInt}
		case KSet:
			if base.Sort.IsMap {
				i = c.coerce(i, base.Sort.Key)
				return Term{"(select " + base.S + " " + i.S + ")", base.Sort.Elem}
			}
			i = c.coerce(i, base.Sort.Elem)
			return Term{"(select " + base.S + " " + i.S + ")", sortBool}
		case KMap:
			// Go semantics: a missing key (or a nil map) reads as the zero value
			st := c.state()
			dom, val := vc.mapHeaps(st, base.Sort)
			i = c.coerce(i, base.Sort.Key)
			in := "(select (select " + dom.S + " " + base.S + ") " + i.S + ")"
			v := "(select (select " + val.S + " " + base.S + ") " + i.S + ")"
			if c.inTrigger {
				return Term{v, base.Sort.Elem} // patterns must be plain applications
			}
			return Term{sIte(sAnd(sNot(sEq(base.S, "0")), in), v, vc.U.zero(base.Sort.Elem)), base.Sort.Elem}
		}
		return c.errorf("cannot index %s", base.Sort.Name)
	case *SSlice:
		base := c.tr(x.X)
		lo := Term{"0", sortInt}
		if x.Lo != nil {
			lo = c.tr(x.Lo)
		}
		switch base.Sort.Kind {
		case KStr:
			hi := Term{"(slen " + base.S + ")", sortInt}
			if x.Hi != nil {
				hi = c.tr(x.Hi)
			}
			return Term{"(ssub " + base.S + " " + lo.S + " " + hi.S + ")", base.Sort}
		case KSlice:
			hi := Term{"(" + base.Sort.Name + "_len " + base.S + ")", sortInt}
			if x.Hi != nil {
				hi = c.tr(x.Hi)
			}
			fn := vc.U.ensureSliceSub(base.Sort)
			return Term{"(" + fn + " " + base.S + " " + lo.S + " " + hi.S + ")", base.Sort}
		}
		return c.errorf("cannot slice %s", base.Sort.Name)
	case *SCall:
		return c.trCall(x)
	}
	return c.errorf("unsupported spec expression %T", e)
}

func (c *SpecCtx) coerce(t Term, s *Sort) Term {
	if s.Kind == KAny && t.Sort.Kind != KAny {
		return c.vc.toAny(t)
	}
	return t
}

// unify adapts nil / boxing between two operands.
func (c *SpecCtx) unify(a, b Term) (Term, Term) {
	if a.Sort == nil || b.Sort == nil {
		return a, b
	}
	if a.S == "$nil" {
		return Term{c.vc.U.zero(b.Sort), b.Sort}, b
	}
	if b.S == "$nil" {
		return a, Term{c.vc.U.zero(a.Sort), a.Sort}
	}
	if a.Sort.Kind == KAny && b.Sort.Kind != KAny {
		return a, c.vc.toAny(b)
	}
	if b.Sort.Kind == KAny && a.Sort.Kind != KAny {
		return c.vc.toAny(a), b
	}
	return a, b
}

func (c *SpecCtx) trBinary(x *SBinary) Term {
	a := c.tr(x.X)
	b := c.tr(x.Y)
	switch x.Op {
	case "&&":
		return Term{sAnd(a.S, b.S), sortBool}
	case "||":
		return Term{sOr(a.S, b.S), sortBool}
	case "==>":
		return Term{sImp(a.S, b.S), sortBool}
	case "<==>":
		return Term{sEq(a.S, b.S), sortBool}
	case "==", "!=":
		a, b = c.unify(a, b)
		eq := sEq(a.S, b.S)
		if x.Op == "!=" {
			eq = sNot(eq)
		}
		return Term{eq, sortBool}
	case "<", "<=", ">", ">=":
		return Term{"(" + x.Op + " " + a.S + " " + b.S + ")", sortBool}
	case "+":
		if a.Sort.Kind == KStr {
			return Term{"(scat " + a.S + " " + b.S + ")", a.Sort}
		}
		return Term{"(+ " + a.S + " " + b.S + ")", sortInt}
	case "-":
		return Term{"(- " + a.S + " " + b.S + ")", sortInt}
	case "*":
		return Term{"(* " + a.S + " " + b.S + ")", sortInt}
	case "/":
		return Term{"(div " + a.S + " " + b.S + ")", sortInt}
	case "%":
		return Term{"(mod " + a.S + " " + b.S + ")", sortInt}
	case "++":
		if a.Sort.Kind == KSlice {
			fn := c.vc.U.ensureSliceCat(a.Sort)
			return Term{"(" + fn + " " + a.S + " " + b.S + ")", a.Sort}
		}
		return Term{"(scat " + a.S + " " + b.S + ")", a.Sort}
	case "in":
		if b.Sort.Kind == KSet {
			a = c.coerce(a, b.Sort.Elem)
			return Term{"(select " + b.S + " " + a.S + ")", sortBool}
		}
		if b.Sort.Kind == KMap {
			dom, _ := c.vc.mapHeaps(c.state(), b.Sort)
			a = c.coerce(a, b.Sort.Key)
			return Term{sAnd(sNot(sEq(b.S, "0")), "(select (select "+dom.S+" "+b.S+") "+a.S+")"), sortBool}
		}
		return c.errorf("'in' needs a set or map on the right")
	}
	return c.errorf("operator %s", x.Op)
}

func (c *SpecCtx) trIdent(name string) Term {
	vc := c.vc
	if c.inOld && c.oldVars != nil {
		if t, ok := c.oldVars[name]; ok {
			return t
		}
	}
	if t, ok := c.vars[name]; ok {
		return t
	}
	if name == "nil" {
		return Term{"$nil", &Sort{Kind: KRef, Name: "Int"}}
	}
	if !c.noState {
		st := c.state()
		if st != nil {
			if v, ok := st.names[name]; ok {
				if _, have := st.vars[v]; have {
					return vc.readVar(st, v)
				}
			}
			// in old(): parameters keep their entry value even if shadow names vanished
			if c.cur != nil && st != c.cur {
				if v, ok := c.cur.names[name]; ok {
					if _, have := st.vars[v]; have {
						return vc.readVar(st, v)
					}
				}
			}
		}
	}
	// package-level Go object
	if c.pkg != nil {
		if o := c.pkg.Types.Scope().Lookup(name); o != nil {
			return c.trObject(o)
		}
	}
	// ghost variable
	if gv := vc.eng.ghostVars[name]; gv != nil {
		return vc.readGhostVar(c.state(), gv)
	}
	// ghost constant (0-ary ghost func)
	if g := vc.eng.ghostFuncs[name]; g != nil && len(g.Params) == 0 {
		vc.declareGhost(g)
		return Term{g.Name, vc.ghostSorts[g.Name].Ret}
	}
	return c.errorf("unknown identifier %q", name)
}

func (c *SpecCtx) trObject(o types.Object) Term {
	vc := c.vc
	switch ob := o.(type) {
	case *types.Const:
		if t, ok := vc.constTerm(ob.Val(), ob.Type()); ok {
			return t
		}
	case *types.Var:
		if c.noState {
			// axioms may mention package-level variables: their entry value
			return vc.readVar(&State{vars: map[*types.Var]Term{}}, ob)
		}
		return vc.readVar(c.state(), ob)
	case *types.Func:
		return vc.funcValue(ob)
	}
	return c.errorf("cannot use %s in a contract", o.Name())
}

func (c *SpecCtx) trSel(x *SSel) Term {
	vc := c.vc
	// package-qualified
	if id, ok := x.X.(*SIdent); ok {
		if _, isVar := c.vars[id.Name]; !isVar {
			isLocal := false
			if !c.noState && c.state() != nil {
				_, isLocal = c.state().names[id.Name]
			}
			if !isLocal && (c.pkg == nil || c.pkg.Types.Scope().Lookup(id.Name) == nil) {
				if p := c.findPackage(id.Name); p != nil {
					if o := p.Scope().Lookup(x.Sel); o != nil {
						return c.trObject(o)
					}
					return c.errorf("package %s has no %s", id.Name, x.Sel)
				}
			}
		}
	}
	// a ghost field of an address-taken local of struct type belongs to the object the local lives in (&b)
	if id, ok := x.X.(*SIdent); ok && !c.noState && c.state() != nil {
		if _, isSpecVar := c.vars[id.Name]; !isSpecVar {
			if v, ok := c.state().names[id.Name]; ok && vc.cellVars[v] {
				if _, isStruct := v.Type().Underlying().(*types.Struct); isStruct {
					ps := vc.U.sortOf(types.NewPointer(v.Type()))
					if gf := vc.eng.lookupGhostField(ps, x.Sel); gf != nil {
						if ref, ok := c.state().vars[v]; ok {
							return c.ghostFieldRead(c.state(), Term{ref.S, ps}, gf)
						}
					}
				}
			}
		}
	}
	base := c.tr(x.X)
	if base.Sort == nil {
		return c.errorf("selector on untyped term")
	}
	st := c.state()
	// ghost field?
	if gf := vc.eng.lookupGhostField(base.Sort, x.Sel); gf != nil {
		return c.ghostFieldRead(st, base, gf)
	}
	switch base.Sort.Kind {
	case KStruct:
		if f := base.Sort.field(x.Sel); f != nil {
			return Term{"(" + f.Sel + " " + base.S + ")", f.Sort}
		}
		// promoted through embedded fields
		if t := c.promoted(base, x.Sel); t != nil {
			return *t
		}
	case KRef:
		if base.Sort.Elem != nil && base.Sort.Elem.Kind == KStruct {
			if f := base.Sort.Elem.field(x.Sel); f != nil {
				return vc.loadField(st, base.S, base.Sort.Elem, f)
			}
			v := vc.loadRef(st, base.S, base.Sort.Elem)
			if t := c.promoted(v, x.Sel); t != nil {
				return *t
			}
		}
	}
	return c.errorf("no field %q on %s", x.Sel, base.Sort.Name)
}

func (c *SpecCtx) promoted(base Term, name string) *Term {
	for _, f := range base.Sort.Fields {
		if f.Sort.Kind == KStruct {
			inner := Term{"(" + f.Sel + " " + base.S + ")", f.Sort}
			if g := f.Sort.field(name); g != nil {
				return &Term{"(" + g.Sel + " " + inner.S + ")", g.Sort}
			}
		}
	}
	return nil
}

func ghostHeapName(owner string, f string) string {
	return "G_" + smtName(owner) + "_" + f
}

func (c *SpecCtx) ghostFieldSort(base Term, gf *GhostField) *Sort {
	sub := &SpecCtx{vc: c.vc, vars: map[string]Term{}, pkg: c.vc.eng.pkgByPathOr(gf.PkgPath, c.pkg), typeArgs: map[string]types.Type{}, where: "ghost field " + gf.Owner + "." + gf.Name}
	if n := namedOf(base.Sort.GoT); n != nil {
		typeArgMap(n, sub.typeArgs)
	}
	_, fs := sub.resolveType(gf.Type)
	return fs
}

func (c *SpecCtx) ghostFieldRead(st *State, base Term, gf *GhostField) Term {
	fs := c.ghostFieldSort(base, gf)
	hn := ghostHeapName(gf.Owner, gf.Name) + "_" + smtName(fs.Name)
	h := c.vc.heapGet(st, hn, "(Array "+base.Sort.Name+" "+fs.Name+")", nil)
	return Term{"(select " + h.S + " " + base.S + ")", fs}
}

func (e *Engine) lookupGhostField(s *Sort, name string) *GhostField {
	if s == nil || s.GoT == nil {
		return nil
	}
	n := namedOf(s.GoT)
	if n == nil {
		return nil
	}
	pkg := ""
	if n.Obj().Pkg() != nil {
		pkg = n.Obj().Pkg().Path()
	}
	for _, gf := range e.ghostFields[pkg+"."+n.Obj().Name()] {
		if gf.Name == name {
			return gf
		}
	}
	return nil
}

func (c *SpecCtx) trCall(x *SCall) Term {
	vc := c.vc
	fname := ""
	switch f := x.Fun.(type) {
	case *SIdent:
		fname = f.Name
	case *SSel:
		// pkg.Func(...) : pure Go function of another package, or method-style ghost call x.f(args)
		if id, ok := f.X.(*SIdent); ok {
			if p := c.findPackage(id.Name); p != nil && c.vars[id.Name].Sort == nil {
				if fo, ok := p.Scope().Lookup(f.Sel).(*types.Func); ok {
					return c.callPureGo(fo, x.Args)
				}
			}
		}
		return c.errorf("unsupported call target")
	default:
		return c.errorf("unsupported call target")
	}
	switch fname {
	case "old":
		if c.old == nil {
			return c.errorf("old() outside a two-state context")
		}
		saved := c.inOld
		c.inOld = true
		t := c.tr(x.Args[0])
		c.inOld = saved
		return t
	case "athead", "before":
		if c.snap == nil {
			return c.errorf("%s() outside a loop clause", fname)
		}
		target := c.snap.head
		if fname == "before" {
			target = c.snap.before
		}
		if target == nil {
			return c.errorf("%s(): no snapshot", fname)
		}
		sc, so, si := c.cur, c.old, c.inOld
		c.cur, c.inOld = target, false
		t := c.tr(x.Args[0])
		c.cur, c.old, c.inOld = sc, so, si
		return t
	case "clientinv":
		// abstract invariant over the state of the client that supplied the callbacks: interpreted by the
		// caller's `clientinv = <expr>` clause, otherwise the ghost boolean $clientinv (owned by the callbacks)
		if c.cbinv != nil && c.cbinv.ClientInvBody != nil {
			sp, scf := c.pkg, c.cf
			if f := vc.eng.fileOf[c.cbinv]; f != nil {
				c.cf = f
				c.pkg = vc.eng.pkgByPathOr(f.PkgPath, c.pkg)
			}
			r := c.tr(c.cbinv.ClientInvBody.Expr)
			c.pkg, c.cf = sp, scf
			return r
		}
		return vc.readVar(c.state(), vc.clientinvVar())
	case "cbinv":
		d := c.tr(x.Args[0])
		if c.cbinv != nil && c.cbinv.CbInvBody != nil {
			saved, had := c.vars[c.cbinv.CbInvParam]
			c.vars[c.cbinv.CbInvParam] = d
			sp, scf := c.pkg, c.cf
			if f := vc.eng.fileOf[c.cbinv]; f != nil {
				c.cf = f
				c.pkg = vc.eng.pkgByPathOr(f.PkgPath, c.pkg)
			}
			r := c.tr(c.cbinv.CbInvBody.Expr)
			c.pkg, c.cf = sp, scf
			if had {
				c.vars[c.cbinv.CbInvParam] = saved
			} else {
				delete(c.vars, c.cbinv.CbInvParam)
			}
			return r
		}
		arr := vc.readVar(c.state(), vc.cbinvVar())
		return Term{"(select " + arr.S + " " + d.S + ")", sortBool}
	case "deref":
		p := c.tr(x.Args[0])
		if p.Sort.Kind != KRef || p.Sort.Elem == nil {
			return c.errorf("deref of non-pointer")
		}
		return vc.loadRef(c.state(), p.S, p.Sort.Elem)
	case "ncalls", "lasterr", "lastres":
		name := specText(x.Args[0])
		v := vc.callbackVar(fname, name)
		return vc.readVar(c.state(), v)
	case "len":
		v := c.tr(x.Args[0])
		switch v.Sort.Kind {
		case KSlice:
			return Term{"(" + v.Sort.Name + "_len " + v.S + ")", sortInt}
		case KStr:
			return Term{"(slen " + v.S + ")", sortInt}
		case KArr:
			return Term{fmt.Sprint(v.Sort.Len), sortInt}
		case KMap:
			return Term{vc.mapLen(c.state(), v), sortInt}
		}
		return c.errorf("len of %s", v.Sort.Name)
	case "append":
		s := c.tr(x.Args[0])
		if s.Sort.Kind != KSlice {
			return c.errorf("append to non-sequence")
		}
		arr, ln := "("+s.Sort.Name+"_arr "+s.S+")", "("+s.Sort.Name+"_len "+s.S+")"
		for i, a := range x.Args[1:] {
			v := c.coerce(c.tr(a), s.Sort.Elem)
			arr = fmt.Sprintf("(store %s (+ %s %d) %s)", arr, ln, i, v.S)
		}
		return Term{fmt.Sprintf("(mk_%s %s (+ %s %d))", s.Sort.Name, arr, ln, len(x.Args)-1), s.Sort}
	case "typeis": // typeis(x, T)
		v := c.tr(x.Args[0])
		if c.typeNotLinked(specText(x.Args[1])) {
			// the type's package is not part of the program under verification: no value can have that type
			return Term{"false", sortBool}
		}
		tt, _ := c.resolveType(specText(x.Args[1]))
		if tt == nil {
			return c.errorf("typeis: bad type")
		}
		return Term{fmt.Sprintf("(= (dyn %s) %d)", v.S, vc.U.typeID(tt)), sortBool}
	case "unbox": // unbox(x, T)
		v := c.tr(x.Args[0])
		tt, ts := c.resolveType(specText(x.Args[1]))
		if tt == nil {
			return c.errorf("unbox: bad type")
		}
		_, ub := vc.U.boxFuncs(tt, ts)
		return Term{"(" + ub + " " + v.S + ")", ts}
	case "box":
		v := c.tr(x.Args[0])
		return vc.toAny(v)
	case "fresh": // fresh(r): allocated by this call
		v := c.tr(x.Args[0])
		if c.old == nil {
			return c.errorf("fresh() outside a two-state context")
		}
		return Term{"(> " + v.S + " " + vc.allocCounter(c.old) + ")", sortBool}
	case "allocated":
		v := c.tr(x.Args[0])
		return Term{"(and (>= " + v.S + " 0) (<= " + v.S + " " + vc.allocCounter(c.state()) + "))", sortBool}
	case "ite":
		cc, a, b := c.tr(x.Args[0]), c.tr(x.Args[1]), c.tr(x.Args[2])
		a, b = c.unify(a, b)
		return Term{sIte(cc.S, a.S, b.S), a.Sort}
	case "int":
		return c.tr(x.Args[0])
	case "runeAt", "runeSz": // the rune decoded at a byte offset of a string / its size in bytes (uninterpreted, see range over string)
		vc.U.ensureFun("runeAt", "(Str Int) Int")
		vc.U.ensureFun("runeSz", "(Str Int) Int")
		a, b := c.tr(x.Args[0]), c.tr(x.Args[1])
		return Term{"(" + specText(x.Fun) + " " + a.S + " " + b.S + ")", sortInt}
	case "elem": // elem(s, x): x occurs in the list s (membership, with the concatenation lemma the engine's append(a, b...) needs)
		sl, xv := c.tr(x.Args[0]), c.tr(x.Args[1])
		if sl.Sort == nil || sl.Sort.Kind != KSlice {
			return c.errorf("elem: not a list")
		}
		xv = c.coerce(xv, sl.Sort.Elem)
		return Term{"(" + vc.U.ensureElem(sl.Sort) + " " + sl.S + " " + xv.S + ")", sortBool}
	case "zeroof": // zeroof(T): the zero value of the (possibly generic) type T
		_, zs := c.resolveType(specText(x.Args[0]))
		if zs == nil {
			return c.errorf("zeroof: cannot resolve type %s", specText(x.Args[0]))
		}
		return Term{vc.U.zero(zs), zs}
	case "emptyset":
		_, s := c.resolveType(specText(x.Args[0]))
		ss := vc.U.setSort(s)
		return Term{vc.U.zero(ss), ss}
	case "anys", "anys2": // the []any a variadic call packs its arguments into
		ss := vc.U.sortOf(types.NewSlice(types.NewInterfaceType(nil, nil)))
		arr := vc.U.zeroArray(ss.Elem)
		for i, a := range x.Args {
			v := vc.toAny(c.tr(a))
			arr = fmt.Sprintf("(store %s %d %s)", arr, i, v.S)
		}
		return Term{fmt.Sprintf("(mk_%s %s %d)", ss.Name, arr, len(x.Args)), ss}
	case "upd": // upd(m, k, v): functional update of a ghost map
		m := c.tr(x.Args[0])
		if m.Sort.Kind != KSet || !m.Sort.IsMap {
			return c.errorf("upd needs a ghost map")
		}
		k := c.coerce(c.tr(x.Args[1]), m.Sort.Key)
		v := c.coerce(c.tr(x.Args[2]), m.Sort.Elem)
		return Term{"(store " + m.S + " " + k.S + " " + v.S + ")", m.Sort}
	case "setadd":
		s := c.tr(x.Args[0])
		v := c.coerce(c.tr(x.Args[1]), s.Sort.Elem)
		return Term{"(store " + s.S + " " + v.S + " true)", s.Sort}
	}
	// ghost / spec function
	if g := vc.eng.ghostFuncs[fname]; g != nil && g.Body != nil && !g.Extern && !g.Define {
		// spec functions are macros: inlined in the caller's state (they may read ghost/heap state)
		if len(x.Args) != len(g.Params) {
			return c.errorf("spec func %s: wrong number of arguments", fname)
		}
		var argv []Term
		for _, a := range x.Args {
			argv = append(argv, c.tr(a))
		}
		saved := map[string]*Term{}
		for i, p := range g.Params {
			if t, ok := c.vars[p.Name]; ok {
				tt := t
				saved[p.Name] = &tt
			} else {
				saved[p.Name] = nil
			}
			c.vars[p.Name] = argv[i]
		}
		sp, scf := c.pkg, c.cf
		c.pkg = vc.eng.pkgByPathOr(g.PkgPath, c.pkg)
		if gcf := vc.eng.ghostFile[g]; gcf != nil {
			c.cf = gcf
			vc.usedFiles[gcf] = true
		}
		c.depth++
		var r Term
		if c.depth > 20 {
			r = c.errorf("spec func %s: recursion too deep (spec functions are macros)", fname)
		} else {
			r = c.tr(g.Body.Expr)
		}
		c.depth--
		c.pkg, c.cf = sp, scf
		for n, t := range saved {
			if t == nil {
				delete(c.vars, n)
			} else {
				c.vars[n] = *t
			}
		}
		return r
	}
	if g := vc.eng.ghostFuncs[fname]; g != nil {
		vc.declareGhost(g)
		sig := vc.ghostSorts[g.Name]
		var as []string
		for i, a := range x.Args {
			v := c.tr(a)
			if i < len(sig.Params) {
				v = c.coerce(v, sig.Params[i])
				if v.S == "$nil" {
					v = Term{vc.U.zero(sig.Params[i]), sig.Params[i]}
				}
			}
			as = append(as, v.S)
		}
		return Term{sApp(g.Name, as...), sig.Ret}
	}
	// pure Go function in the home package
	if c.pkg != nil {
		if fo, ok := c.pkg.Types.Scope().Lookup(fname).(*types.Func); ok {
			return c.callPureGo(fo, x.Args)
		}
	}
	// conversion-like use of a type name: T(x)
	if len(x.Args) == 1 {
		if tt, ts := c.quietType(fname); tt != nil {
			v := c.tr(x.Args[0])
			return Term{v.S, ts}
		}
	}
	return c.errorf("unknown function %q", fname)
}

func (c *SpecCtx) quietType(name string) (types.Type, *Sort) {
	n := len(c.vc.specErrors)
	ne := len(c.errs)
	t, s := c.resolveType(name)
	c.vc.specErrors = c.vc.specErrors[:n]
	c.errs = c.errs[:ne]
	return t, s
}

func specText(e SExpr) string {
	switch x := e.(type) {
	case *SIdent:
		return x.Name
	case *SSel:
		return specText(x.X) + "." + x.Sel
	case *SUnary:
		if x.Op == "*" {
			return "*" + specText(x.X)
		}
	case *SStrLit:
		return x.V
	}
	return ""
}

func (c *SpecCtx) callPureGo(fo *types.Func, args []SExpr) Term {
	vc := c.vc
	key := funcKey(fo)
	fc := vc.eng.contracts[key]
	if fc == nil || !fc.Pure {
		return c.errorf("Go function %s used in a contract must have a pure contract", key)
	}
	fn := vc.declarePure(fc, fo)
	sig := fo.Type().(*types.Signature)
	var as []string
	np := sig.Params().Len()
	for i, a := range args {
		if sig.Variadic() && i >= np-1 {
			break
		}
		v := c.tr(a)
		if i < np {
			ps := vc.U.sortOf(sig.Params().At(i).Type())
			v = c.coerce(v, ps)
		}
		as = append(as, v.S)
	}
	if sig.Variadic() {
		// pack the remaining arguments exactly as a call site does
		ss := vc.U.sortOf(sig.Params().At(np - 1).Type())
		rest := args[minInt(np-1, len(args)):]
		packed := false
		if len(rest) == 1 {
			// an argument that already is the packed slice (anys(...), s...) is passed through
			if v := c.tr(rest[0]); v.Sort != nil && v.Sort.Name == ss.Name {
				as = append(as, v.S)
				packed = true
			}
		}
		if !packed {
			arr := vc.U.zeroArray(ss.Elem)
			n := 0
			for _, a := range rest {
				v := c.coerce(c.tr(a), ss.Elem)
				arr = fmt.Sprintf("(store %s %d %s)", arr, n, v.S)
				n++
			}
			as = append(as, fmt.Sprintf("(mk_%s %s %d)", ss.Name, arr, n))
		}
	}
	rs := vc.U.sortOf(sig.Results().At(0).Type())
	return Term{sApp(fn, as...), rs}
}

func minInt(a, b int) int {
	if a < b {
		return a
	}
	return b
}

// declarePure declares the uninterpreted symbol of a pure Go function and its contract axiom.
func (vc *VC) declarePure(fc *FuncContract, fo *types.Func) string {
	name := "fn_" + smtName(shortKey(fc.Key))
	if vc.pureDeclared[name] {
		return name
	}
	vc.pureDeclared[name] = true
	fc.Used = true
	sig := fo.Type().(*types.Signature)
	var ps []string
	var decl []string
	ctx := vc.newSpecCtx(fc, nil, nil)
	ctx.noState = true
	var as []string
	if r := sig.Recv(); r != nil {
		s := vc.U.sortOf(r.Type())
		ps = append(ps, s.Name)
		decl = append(decl, "(p_this "+s.Name+")")
		ctx.vars["this"] = Term{"p_this", s}
		if r.Name() != "" {
			ctx.vars[r.Name()] = Term{"p_this", s}
		}
		as = append(as, "p_this")
	}
	var ranges []string
	for i := 0; i < sig.Params().Len(); i++ {
		p := sig.Params().At(i)
		s := vc.U.sortOf(p.Type())
		ps = append(ps, s.Name)
		n := fmt.Sprintf("p_%d", i)
		decl = append(decl, "("+n+" "+s.Name+")")
		t := Term{n, s}
		if p.Name() != "" {
			ctx.vars[p.Name()] = t
		}
		if i < len(fc.ParamNames) && fc.ParamNames[i] != "" {
			ctx.vars[fc.ParamNames[i]] = t
		}
		as = append(as, n)
		if lo, hi, ok := s.rangeOf(); ok && s.Kind == KInt {
			ranges = append(ranges, "(<= "+lo+" "+n+")", "(<= "+n+" "+hi+")")
		}
	}
	rs := vc.U.sortOf(sig.Results().At(0).Type())
	vc.U.decls = append(vc.U.decls, fmt.Sprintf("(declare-fun %s (%s) %s)", name, strings.Join(ps, " "), rs.Name))
	app := sApp(name, as...)
	ctx.vars["result"] = Term{app, rs}
	ctx.vars["result0"] = Term{app, rs}
	var pre []string
	pre = append(pre, ranges...)
	for _, r := range fc.Requires {
		pre = append(pre, ctx.tr(r.Expr).S)
	}
	var post []string
	if lo, hi, ok := rs.rangeOf(); ok && rs.Kind == KInt {
		post = append(post, "(<= "+lo+" "+app+")", "(<= "+app+" "+hi+")")
	}
	for _, e := range fc.Ensures {
		post = append(post, ctx.tr(e.Expr).S)
	}
	if fc == vc.contract {
		// never assume a function's own contract while verifying it
		post = nil
	}
	if len(post) > 0 {
		body := sImp(sAnd(pre...), sAnd(post...))
		if len(decl) > 0 {
			vc.U.axioms = append(vc.U.axioms, "(forall ("+strings.Join(decl, " ")+") (! "+body+" :pattern ("+app+")))")
		} else {
			vc.U.axioms = append(vc.U.axioms, body)
		}
	}
	return name
}

// declareGhost declares a ghost/spec function (and, for spec funcs, its definition).
func (vc *VC) declareGhost(g *GhostFunc) {
	if vc.ghostDeclared[g.Name] {
		return
	}
	vc.ghostDeclared[g.Name] = true
	ctx := &SpecCtx{vc: vc, vars: map[string]Term{}, typeArgs: map[string]types.Type{}, noState: true, where: "ghost func " + g.Name}
	ctx.pkg = vc.eng.pkgByPathOr(g.PkgPath, vc.pkg)
	ctx.cf = vc.eng.ghostFile[g]
	if ctx.cf != nil {
		vc.usedFiles[ctx.cf] = true
	}
	sig := &ghostSig{}
	var ps, decl []string
	for _, p := range g.Params {
		_, s := ctx.resolveType(p.Type)
		sig.Params = append(sig.Params, s)
		ps = append(ps, s.Name)
		decl = append(decl, "(a_"+p.Name+" "+s.Name+")")
		ctx.vars[p.Name] = Term{"a_" + p.Name, s}
	}
	_, rs := ctx.resolveType(g.Ret)
	sig.Ret = rs
	vc.ghostSorts[g.Name] = sig
	if g.Extern {
		return
	}
	if g.Body == nil {
		vc.U.decls = append(vc.U.decls, fmt.Sprintf("(declare-fun %s (%s) %s)", g.Name, strings.Join(ps, " "), rs.Name))
		return
	}
	// defined function; body may reference other ghosts (declared first through recursion)
	body := ctx.tr(g.Body.Expr)
	vc.U.decls = append(vc.U.decls, fmt.Sprintf("(define-fun %s (%s) %s %s)", g.Name, strings.Join(decl, " "), rs.Name, body.S))
}

// havocLocation implements one `modifies` target.
func (vc *VC) havocLocation(ctx *SpecCtx, st *State, m *Clause) {
	switch x := m.Expr.(type) {
	case *SIdent:
		if x.Name == "heap" || x.Name == "everything" {
			vc.havocAllHeaps(st)
			if x.Name == "everything" {
				vc.havocGhostVars(st)
			}
			return
		}
		if gv := vc.eng.ghostVars[x.Name]; gv != nil {
			vc.havocGhostVar(st, gv)
			return
		}
		if x.Name == "mapcontents" {
			vc.havocMapHeaps(st)
			return
		}
		// a local variable of the unit under verification (e.g. one captured and assigned by a function literal
		// whose effect is applied here)
		if v, ok := st.names[x.Name]; ok {
			if cur, ok := st.vars[v]; ok {
				if vc.cellVars[v] {
					s := vc.U.sortOf(v.Type())
					nv := vc.fresh(v.Name(), s)
					vc.typeInvariant(st, nv)
					vc.storeRef(st, cur.S, s, nv.S)
				} else {
					nv := vc.fresh(v.Name(), cur.Sort)
					vc.typeInvariant(st, nv)
					st.vars[v] = nv
				}
				return
			}
		}
		// a variable passed by reference is not expressible; a package-level variable:
		if ctx.pkg != nil {
			if v, ok := ctx.pkg.Types.Scope().Lookup(x.Name).(*types.Var); ok {
				f := vc.fresh("gv_"+v.Name(), vc.U.sortOf(v.Type()))
				vc.typeInvariant(st, f)
				st.vars[v] = f
				return
			}
		}
	case *SSel:
		ctx.inOld = true
		base := ctx.tr(x.X)
		ctx.inOld = false
		if gf := vc.eng.lookupGhostField(base.Sort, x.Sel); gf != nil {
			fs := ctx.ghostFieldSort(base, gf)
			hn := ghostHeapName(gf.Owner, gf.Name) + "_" + smtName(fs.Name)
			h := vc.heapGet(st, hn, "(Array "+base.Sort.Name+" "+fs.Name+")", nil)
			nv := vc.fresh(gf.Name, fs)
			vc.typeInvariant(st, nv)
			vc.heapSet(st, hn, vc.bindHeap(hn, "(store " + h.S + " " + base.S + " " + nv.S + ")"))
			return
		}
		if base.Sort.Kind == KRef && base.Sort.Elem != nil && base.Sort.Elem.Kind == KStruct {
			if x.Sel == "all" || x.Sel == "*" {
				for i := range base.Sort.Elem.Fields {
					f := &base.Sort.Elem.Fields[i]
					nv := vc.fresh(f.Name, f.Sort)
					vc.typeInvariant(st, nv)
					vc.storeField(st, base.S, base.Sort.Elem, f, nv.S)
				}
				return
			}
			if f := base.Sort.Elem.field(x.Sel); f != nil {
				nv := vc.fresh(f.Name, f.Sort)
				vc.typeInvariant(st, nv)
				vc.storeField(st, base.S, base.Sort.Elem, f, nv.S)
				return
			}
		}
	case *SCall:
		// all(T.f): the field f of every object of type T
		if id, ok := x.Fun.(*SIdent); ok && id.Name == "all" && len(x.Args) == 1 {
			if sel, ok := x.Args[0].(*SSel); ok {
				tt, ts := ctx.resolveType(specText(sel.X))
				if tt != nil && ts.Kind == KStruct {
					if f := ts.field(sel.Sel); f != nil {
						hn, hs := fieldHeapName(ts, f)
						vc.heapGet(st, hn, hs, nil)
						vc.nfresh++
						n := fmt.Sprintf("%s!%d", smtName(hn), vc.nfresh)
						vc.consts = append(vc.consts, fmt.Sprintf("(declare-const %s %s)", n, hs))
						st.heaps[hn] = Term{n, nil}
						return
					}
				}
				if hn, hs, ok := vc.ghostFieldHeapOfType(ctx, tt, sel.Sel); ok {
					vc.heapGet(st, hn, hs, nil)
					vc.nfresh++
					n := fmt.Sprintf("%s!%d", smtName(hn), vc.nfresh)
					vc.consts = append(vc.consts, fmt.Sprintf("(declare-const %s %s)", n, hs))
					st.heaps[hn] = Term{n, nil}
					return
				}
			}
		}
	}
	vc.specErrors = append(vc.specErrors, fmt.Sprintf("%s:%d: unsupported modifies target %q", m.File, m.Line, m.Text))
}

// renderPrelude: declarations, imported SMT, ghost axioms (closure over used symbols), universe axioms.
func (vc *VC) renderPrelude() string {
	if vc.preludeCache != "" && vc.preludeAt == len(vc.U.decls)+len(vc.U.axioms)+len(vc.U.lits) {
		return vc.preludeCache
	}
	// include axioms of every contract file in use whose ghost symbols are declared
	changed := true
	for changed {
		changed = false
		for _, cf := range vc.eng.cfiles {
			if !vc.usedFiles[cf] {
				continue
			}
			for _, ax := range cf.Axioms {
				if vc.axiomsDone[ax] {
					continue
				}
				if !vc.axiomRelevant(ax) {
					continue
				}
				vc.axiomsDone[ax] = true
				ctx := &SpecCtx{vc: vc, vars: map[string]Term{}, typeArgs: map[string]types.Type{}, noState: true, cf: cf, where: fmt.Sprintf("axiom %s:%d", cf.Path, ax.Line)}
				ctx.pkg = vc.eng.pkgByPathOr(ax.PkgPath, vc.pkg)
				t := ctx.tr(ax.Expr)
				vc.U.axioms = append(vc.U.axioms, t.S)
				changed = true
			}
			for _, imp := range cf.SMTImports {
				if !vc.U.declared["import:"+imp] {
					vc.U.declared["import:"+imp] = true
					data, err := os.ReadFile(imp)
					if err != nil {
						vc.specErrors = append(vc.specErrors, "spec-import: "+err.Error())
						continue
					}
					vc.U.imports = append(vc.U.imports, string(data))
					changed = true
				}
			}
		}
	}
	vc.preludeCache = "(set-option :produce-models true)\n" + vc.U.prelude()
	vc.axiomCache = vc.U.axiomPart()
	vc.preludeAt = len(vc.U.decls) + len(vc.U.axioms) + len(vc.U.lits)
	return vc.preludeCache
}

var _ = strconv.Itoa
var _ = constant.MakeBool


// axiomRelevant: an axiom is included once one of the ghost/pure symbols it mentions is in use.
func (vc *VC) axiomRelevant(ax *Clause) bool {
	names := map[string]bool{}
	collectCalls(ax.Expr, names)
	if len(names) == 0 {
		return true
	}
	any := false
	for n := range names {
		if g := vc.eng.ghostFuncs[n]; g != nil {
			if g.Body != nil && !g.Extern && !g.Define {
				continue // macro
			}
			any = true
			if vc.ghostDeclared[n] {
				return true
			}
		}
	}
	for n := range vc.pureDeclared {
		for m := range names {
			if strings.HasSuffix(n, "_"+m) || strings.HasSuffix(n, "."+m) {
				return true
			}
		}
	}
	return !any
}

func collectCalls(e SExpr, out map[string]bool) {
	switch x := e.(type) {
	case *SCall:
		if id, ok := x.Fun.(*SIdent); ok {
			out[id.Name] = true
		}
		for _, a := range x.Args {
			collectCalls(a, out)
		}
	case *SUnary:
		collectCalls(x.X, out)
	case *SBinary:
		collectCalls(x.X, out)
		collectCalls(x.Y, out)
	case *SSel:
		collectCalls(x.X, out)
	case *SIndex:
		collectCalls(x.X, out)
		collectCalls(x.I, out)
	case *SSlice:
		collectCalls(x.X, out)
		if x.Lo != nil {
			collectCalls(x.Lo, out)
		}
		if x.Hi != nil {
			collectCalls(x.Hi, out)
		}
	case *SQuant:
		collectCalls(x.Body, out)
		for _, tr := range x.Trig {
			for _, t := range tr {
				collectCalls(t, out)
			}
		}
	case *SIte:
		collectCalls(x.C, out)
		collectCalls(x.A, out)
		collectCalls(x.B, out)
	case *SLet:
		collectCalls(x.Val, out)
		collectCalls(x.Body, out)
	}
}


// ghost variables: package-level ghost state (e.g. the abstract file system).
func (vc *VC) ghostVarSort(gv *GhostVar) *Sort {
	ctx := &SpecCtx{vc: vc, vars: map[string]Term{}, typeArgs: map[string]types.Type{}, noState: true, where: "ghost var " + gv.Name}
	ctx.pkg = vc.eng.pkgByPathOr(gv.PkgPath, vc.pkg)
	_, s := ctx.resolveType(gv.Type)
	return s
}

func (vc *VC) readGhostVar(st *State, gv *GhostVar) Term {
	obj := vc.eng.ghostVarObj[gv.Name]
	if st != nil {
		if t, ok := st.vars[obj]; ok {
			return t
		}
	}
	key := "$ghostvar:" + gv.Name
	if t, ok := vc.heap0[key]; ok {
		return t
	}
	t := vc.fresh("gv_"+gv.Name, vc.ghostVarSort(gv))
	vc.heap0[key] = t
	return t
}

func (vc *VC) havocGhostVar(st *State, gv *GhostVar) {
	// make sure the initial symbol exists (so that old() sees the entry value)
	vc.readGhostVar(vc.entry, gv)
	st.vars[vc.eng.ghostVarObj[gv.Name]] = vc.fresh("gv_"+gv.Name, vc.ghostVarSort(gv))
}


// initGhostFields: an object allocated by the Go code itself (composite literal, new) starts with the zero value
// in every ghost field declared for its type (convention of the contract language; constructors with contracts
// state their own initial values).
func (vc *VC) initGhostFields(st *State, obj Term) {
	if obj.Sort == nil || obj.Sort.GoT == nil {
		return
	}
	n := namedOf(obj.Sort.GoT)
	if n == nil {
		return
	}
	pkg := ""
	if n.Obj().Pkg() != nil {
		pkg = n.Obj().Pkg().Path()
	}
	ctx := &SpecCtx{vc: vc, vars: map[string]Term{}, pkg: vc.pkg, typeArgs: map[string]types.Type{}, where: "ghost init"}
	for _, gf := range vc.eng.ghostFields[pkg+"."+n.Obj().Name()] {
		fs := ctx.ghostFieldSort(obj, gf)
		if fs == nil {
			continue
		}
		hn := ghostHeapName(gf.Owner, gf.Name) + "_" + smtName(fs.Name)
		hs := "(Array " + obj.Sort.Name + " " + fs.Name + ")"
		h := vc.heapGet(st, hn, hs, nil)
		vc.heapSet(st, hn, vc.bindHeap(hn, "(store "+h.S+" "+obj.S+" "+vc.U.zero(fs)+")"))
	}
}


// ghostFieldHeapOfType: heap name and sort of ghost field `name` declared for objects of Go type t
// (a struct type stands for pointers to it).
func (vc *VC) ghostFieldHeapOfType(ctx *SpecCtx, t types.Type, name string) (string, string, bool) {
	if t == nil {
		return "", "", false
	}
	bt := t
	if _, isStruct := t.Underlying().(*types.Struct); isStruct {
		bt = types.NewPointer(t)
	}
	bs := vc.U.sortOf(bt)
	gf := vc.eng.lookupGhostField(bs, name)
	if gf == nil {
		return "", "", false
	}
	fs := ctx.ghostFieldSort(Term{"0", bs}, gf)
	if fs == nil {
		return "", "", false
	}
	return ghostHeapName(gf.Owner, gf.Name) + "_" + smtName(fs.Name), "(Array " + bs.Name + " " + fs.Name + ")", true
}


// typeNotLinked: the (pointer to a) named type pkg.T is written with an import alias whose package is not among
// the loaded packages (go/packages loads every transitive dependency of the packages under verification).
func (c *SpecCtx) typeNotLinked(ts string) bool {
	ts = strings.TrimPrefix(strings.TrimSpace(ts), "*")
	i := strings.LastIndex(ts, ".")
	if i < 0 || strings.ContainsAny(ts, "[]") {
		return false
	}
	pn := ts[:i]
	if c.cf == nil {
		return false
	}
	path, ok := c.cf.Imports[pn]
	if !ok {
		return false
	}
	return c.vc.eng.pkgByPath(path) == nil && c.findPackage(pn) == nil
}
