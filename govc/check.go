package main

// Property checks: obligation selection, discharge, known findings, replay, evidence.

import (
	"encoding/json"
	"flag"
	"fmt"
	"os"
	"path/filepath"
	"regexp"
	"sort"
	"strconv"
	"strings"
	"time"
)

type Selector struct {
	Units string // regexp on unit key
	Kinds string // regexp on obligation kind ("" = all)
	Names string // regexp on obligation name ("" = all)
}

type BoundedRun struct {
	Name     string   `json:"name"`
	Bound    string   `json:"bound"`
	Cases    int      `json:"cases"`
	Distinct int      `json:"distinct_nontrivial"`
	Failures []string `json:"failures,omitempty"`
	Secs     float64  `json:"secs"`
}

type Finding struct {
	Obligation string
	What       string
	Replay     map[string]any // content of the replay file
	HasInput   bool
}

type PropSpec struct {
	ID        string
	Level     string // "proof" | "other"
	Pkgs      []string
	Select    []Selector
	Prepare   func(c *CheckCtx) error               // oracle / certificate generation (before loading contracts)
	Extra     func(c *CheckCtx) error               // extra obligations / certificate checks / bounded runs (after discharge setup)
	Replay    func(c *CheckCtx, o *Obligation) (input string, confirmed bool, detail map[string]any)
	Lemmas    []string
	Trusted   []string
	Explain   string
	Technique string
	OnlyContracted bool // consider only functions that have a contract (the others are listed as not under contract)
	TimeoutQuick   int  // per-obligation time-out of the quick tier where the default (10 s) is too tight
}

type CheckCtx struct {
	Spec   *PropSpec
	Tier   string
	Seed   int
	Repo   string
	Eng    *Engine
	Obls   []*Obligation
	Units  map[string]*UnitResult
	VCs    map[string]*VC
	Bounded []BoundedRun
	Notes  []string
	ExtraFindings []Finding
	NotUnderContract []string
	Timeout int
	t0     time.Time
	Data   map[string]any
}

var registry = map[string]*PropSpec{}

func register(p *PropSpec) { registry[p.ID] = p }

type knownEntry struct {
	Kind       string // "known" | "fixed"
	Property   string
	Obligation string
	Witness    string
	Text       string
}

func readKnownFindings(path string) []knownEntry {
	data, err := os.ReadFile(path)
	if err != nil {
		return nil
	}
	var out []knownEntry
	for _, l := range strings.Split(string(data), "\n") {
		l = strings.TrimSpace(l)
		if l == "" || strings.HasPrefix(l, "#") {
			continue
		}
		var e knownEntry
		switch {
		case strings.HasPrefix(l, "known:"):
			e.Kind = "known"
			l = strings.TrimSpace(l[6:])
		case strings.HasPrefix(l, "fixed:"):
			e.Kind = "fixed"
			l = strings.TrimSpace(l[6:])
		default:
			continue
		}
		// key=value tokens until the first token without '='
		rest := l
		for {
			rest = strings.TrimSpace(rest)
			i := strings.IndexAny(rest, " \t")
			tok := rest
			if i >= 0 {
				tok = rest[:i]
			}
			eq := strings.Index(tok, "=")
			if eq < 0 {
				break
			}
			k, v := tok[:eq], tok[eq+1:]
			if strings.HasPrefix(v, `"`) {
				// quoted value may contain spaces
				j := strings.Index(rest[eq+2:], `"`)
				if j >= 0 {
					v = rest[eq+2 : eq+2+j]
					i = eq + 2 + j + 1
					if i >= len(rest) {
						i = -1
					}
				}
			}
			switch k {
			case "property":
				e.Property = v
			case "obligation":
				e.Obligation = v
			case "witness":
				e.Witness = v
			}
			if i < 0 {
				rest = ""
				break
			}
			rest = rest[i:]
		}
		e.Text = strings.TrimSpace(rest)
		out = append(out, e)
	}
	return out
}

func checkMain(args []string) int {
	fs := flag.NewFlagSet("check", flag.ExitOnError)
	repo := fs.String("repo", "/repo", "repository root")
	verbose := fs.Bool("v", false, "verbose")
	fs.Parse(args)
	rest := fs.Args()
	if len(rest) < 1 {
		fmt.Fprintln(os.Stderr, "usage: govc check [-repo R] <property> [quick|thorough]")
		return 2
	}
	id := rest[0]
	tier := "quick"
	if len(rest) > 1 {
		tier = rest[1]
	}
	if t := os.Getenv("VERIF_TIER"); t != "" && len(rest) < 2 {
		tier = t
	}
	seed := 0
	if s := os.Getenv("VERIF_SEED"); s != "" {
		seed, _ = strconv.Atoi(s)
	}
	spec := registry[id]
	if spec == nil {
		fmt.Fprintln(os.Stderr, "unknown property", id)
		return 2
	}
	c := &CheckCtx{Spec: spec, Tier: tier, Seed: seed, Repo: *repo, Units: map[string]*UnitResult{}, VCs: map[string]*VC{}, t0: time.Now(), Data: map[string]any{}}
	c.Timeout = 10
	if spec.TimeoutQuick > 0 {
		c.Timeout = spec.TimeoutQuick
	}
	if tier == "thorough" {
		c.Timeout = 60
	}
	return c.run(*verbose)
}

func (c *CheckCtx) fatal(msg string) int {
	// an internal error of the machinery is not a verdict about the property: report and exit 2
	fmt.Fprintf(os.Stderr, "govc: internal error: %s\n", msg)
	return 2
}

func (c *CheckCtx) run(verbose bool) int {
	spec := c.Spec
	os.MkdirAll("/verif/specs/gen", 0o755)
	os.MkdirAll("/verif/evidence", 0o755)
	if spec.Prepare != nil {
		if err := spec.Prepare(c); err != nil {
			return c.fatal("prepare: " + err.Error())
		}
	}
	eng, err := loadEngine(c.Repo, spec.Pkgs, []string{"/verif/contracts/dep", "/verif/specs/gen"})
	if err != nil {
		return c.fatal("load: " + err.Error())
	}
	c.Eng = eng
	var structural []Finding
	for _, e := range eng.loadErrs {
		structural = append(structural, Finding{Obligation: "load", What: "package or contract load error: " + e})
	}
	// generate
	var sels []struct {
		u, k, n *regexp.Regexp
	}
	for _, s := range spec.Select {
		var k, n *regexp.Regexp
		if s.Kinds != "" {
			k = regexp.MustCompile(s.Kinds)
		}
		if s.Names != "" {
			n = regexp.MustCompile(s.Names)
		}
		sels = append(sels, struct{ u, k, n *regexp.Regexp }{regexp.MustCompile(s.Units), k, n})
	}
	for _, key := range eng.unitOrder {
		match := false
		for _, s := range sels {
			if s.u.MatchString(key) {
				match = true
			}
		}
		if !match {
			continue
		}
		u := eng.units[key]
		fc := eng.contracts[key]
		if fc != nil && (fc.Assumed || fc.Opaque) {
			continue
		}
		if fc == nil && spec.OnlyContracted {
			c.NotUnderContract = append(c.NotUnderContract, key)
			continue
		}
		res, vc := eng.generate(u)
		c.Units[key] = res
		c.VCs[key] = vc
		for _, m := range res.SpecErrors {
			structural = append(structural, Finding{Obligation: key + "#contract", What: "contract does not bind to the code: " + m})
		}
		for _, m := range res.Unsupported {
			structural = append(structural, Finding{Obligation: key + "#subset", What: "construct outside the verified subset: " + m})
		}
		if fc != nil {
			for _, cs := range fc.Callsites {
				if !cs.used {
					structural = append(structural, Finding{Obligation: fmt.Sprintf("%s#callsite[%s]", key, cs.Callee), What: fmt.Sprintf("UNBOUND contract line: no call %s in %s", cs.Callee, key)})
				}
			}
			for ord, ls := range fc.Loops {
				if !ls.used {
					structural = append(structural, Finding{Obligation: fmt.Sprintf("%s#loop[%d]", key, ord), What: fmt.Sprintf("UNBOUND contract line: loop[%d] of %s does not exist in the code", ord, key)})
				}
			}
		}
		for _, o := range res.Obligations {
			for _, s := range sels {
				if !s.u.MatchString(key) {
					continue
				}
				if s.k != nil && !s.k.MatchString(o.Kind) {
					continue
				}
				if s.n != nil && !s.n.MatchString(o.Name) {
					continue
				}
				c.Obls = append(c.Obls, o)
				break
			}
		}
	}
	if spec.Extra != nil {
		if err := spec.Extra(c); err != nil {
			return c.fatal("extra: " + err.Error())
		}
	}
	keep := filepath.Join("/verif/replays", spec.ID, "queries")
	os.RemoveAll(filepath.Join("/verif/replays", spec.ID))
	opts := solveOpts{TimeoutS: c.Timeout, Seed: c.Seed}
	if c.Tier == "thorough" {
		opts.NeedAgree = 1
	}
	for _, o := range c.Obls {
		for _, k := range readKnownFindings("/verif/known_findings.txt") {
			if k.Kind == "known" && k.Property == spec.ID && k.Obligation == o.Name {
				o.NoRetry = true
			}
		}
	}
	tSolve := time.Now()
	dischargeAll(c.Obls, opts, 16, keep)
	solveWall := time.Since(tSolve).Seconds()

	// classify
	known := readKnownFindings("/verif/known_findings.txt")
	var failed []*Obligation
	nReal, nProved, nProbe, nProbeOK := 0, 0, 0, 0
	byBackend := map[string]int{}
	solverSecs := 0.0
	for _, o := range c.Obls {
		solverSecs += o.Result.Secs
		if o.MustFail {
			nProbe++
			if o.Result.Verdict == Proved {
				structural = append(structural, Finding{Obligation: o.Name, What: "VACUOUS: " + o.Desc + " -- the contract or an assumed contract is contradictory"})
			} else {
				nProbeOK++
			}
			continue
		}
		isKnownOb := false
		for _, k := range known {
			if k.Kind == "known" && k.Property == spec.ID && k.Obligation == o.Name {
				isKnownOb = true
			}
		}
		if isKnownOb && o.Result.Verdict != Proved {
			// a listed finding is reported separately and is not part of the claimed obligation set
			failed = append(failed, o)
			continue
		}
		nReal++
		if o.Result.Verdict == Proved {
			nProved++
			byBackend[o.Result.Backend]++
		} else {
			failed = append(failed, o)
		}
	}
	if nReal == 0 {
		structural = append(structural, Finding{Obligation: "count", What: "no obligations were generated for this property (vacuity guard)"})
	}
	violations := 0
	knownLines := []string{}
	findings := []map[string]any{}
	report := func(f Finding) {
		// known finding?
		for _, k := range known {
			if k.Kind == "known" && k.Property == spec.ID && k.Obligation == f.Obligation {
				knownLines = append(knownLines, fmt.Sprintf("KNOWN-FINDING: property=%s %s [%s]", spec.ID, k.Text, f.Obligation))
				findings = append(findings, map[string]any{"obligation": f.Obligation, "known": true, "what": k.Text})
				return
			}
		}
		violations++
		dir := filepath.Join("/verif/replays", spec.ID)
		os.MkdirAll(dir, 0o755)
		path := filepath.Join(dir, sanitize(f.Obligation)+".json")
		rep := map[string]any{"property": spec.ID, "obligation": f.Obligation, "what": f.What}
		for k, v := range f.Replay {
			rep[k] = v
		}
		data, _ := json.MarshalIndent(rep, "", " ")
		os.WriteFile(path, data, 0o644)
		suffix := ""
		if !f.HasInput {
			suffix = " no-failing-input-found"
		}
		fmt.Printf("VIOLATION property=%s replay=%s obligation=%s%s\n", spec.ID, path, f.Obligation, suffix)
		findings = append(findings, map[string]any{"obligation": f.Obligation, "known": false, "what": f.What, "replay": path})
	}
	for _, f := range structural {
		report(f)
	}
	for _, o := range failed {
		f := Finding{Obligation: o.Name, What: fmt.Sprintf("%s obligation not discharged (%s): %s at %s:%d", o.Kind, o.Result.Verdict, o.Desc, o.Pos.Filename, o.Pos.Line)}
		f.Replay = map[string]any{
			"unit": o.Unit, "kind": o.Kind, "clause": o.Desc, "source": fmt.Sprintf("%s:%d", o.Pos.Filename, o.Pos.Line),
			"verdict": o.Result.Verdict.String(), "backend": o.Result.Backend, "solver_output": truncate(o.Result.Output+o.Result.Model, 4000),
			"query": filepath.Join(keep, sanitize(o.Name)+".smt2"),
		}
		isKnown := false
		for _, k := range known {
			if k.Kind == "known" && k.Property == spec.ID && k.Obligation == o.Name {
				isKnown = true
			}
		}
		if o.Result.Verdict == Unknown && !isKnown && o.vc != nil {
			// candidate counter-model from the ground part of the query
			r := solve(o.Name+".ground", o.queryGround(), solveOpts{TimeoutS: 5, Seed: c.Seed, Backends: []string{"z3-new"}})
			if r.Verdict == Refuted {
				o.Result.Model = r.Model
				o.Result.Verdict = Refuted
				o.Candidate = true
				f.Replay["candidate_model"] = "obtained from the quantifier-free part of the query; counts only if the replay confirms it"
				f.Replay["solver_output"] = truncate(r.Model, 4000)
			}
		}
		if spec.Replay != nil && !isKnown {
			input, confirmed, detail := spec.Replay(c, o)
			for k, v := range detail {
				f.Replay[k] = v
			}
			if input != "" {
				f.Replay["failing_input"] = input
				f.Replay["confirmed_on_real_code"] = confirmed
				f.HasInput = confirmed
			}
		}
		report(f)
	}
	for _, f := range c.ExtraFindings {
		report(f)
	}
	for _, l := range knownLines {
		fmt.Println(l)
	}
	// evidence
	units := []string{}
	assumed, assumptions, uncontracted := []string{}, []string{}, []string{}
	seenA := map[string]bool{}
	for k, r := range c.Units {
		units = append(units, k)
		for _, a := range r.CalledAssumed {
			if !seenA["dep:"+a] {
				seenA["dep:"+a] = true
				assumed = append(assumed, a)
			}
		}
		for _, a := range r.Assumptions {
			if !seenA[a] {
				seenA[a] = true
				assumptions = append(assumptions, a)
			}
		}
		for _, a := range r.Uncontracted {
			if !seenA["unc:"+a] {
				seenA["unc:"+a] = true
				uncontracted = append(uncontracted, a)
			}
		}
	}
	sort.Strings(units)
	sort.Strings(assumed)
	sort.Strings(assumptions)
	sort.Strings(uncontracted)
	samples := []map[string]any{}
	slowest := []map[string]any{}
	sorted := append([]*Obligation{}, c.Obls...)
	sort.Slice(sorted, func(i, j int) bool { return sorted[i].Result.Secs > sorted[j].Result.Secs })
	for i, o := range sorted {
		if i >= 5 {
			break
		}
		slowest = append(slowest, map[string]any{"name": o.Name, "secs": round3(o.Result.Secs), "backend": o.Result.Backend, "verdict": o.Result.Verdict.String()})
	}
	for i, o := range c.Obls {
		if len(samples) >= 6 {
			break
		}
		if o.MustFail || i%maxInt(1, len(c.Obls)/6) != 0 {
			continue
		}
		samples = append(samples, map[string]any{"name": o.Name, "kind": o.Kind, "clause": o.Desc, "source": fmt.Sprintf("%s:%d", o.Pos.Filename, o.Pos.Line),
			"verdict": o.Result.Verdict.String(), "backend": o.Result.Backend, "secs": round3(o.Result.Secs), "query_bytes": len(o.query())})
	}
	if len(samples) == 0 && len(c.Obls) > 0 {
		o := c.Obls[0]
		samples = append(samples, map[string]any{"name": o.Name, "kind": o.Kind, "clause": o.Desc, "verdict": o.Result.Verdict.String()})
	}
	trusted := append([]string{"govc VC generator (/verif/govc): Go semantics of DESIGN.md §2.3", "go/types (go1.24.0)", "SMT solvers z3 4.8.12 / z3 5.1.0 / cvc5 1.0"}, spec.Trusted...)
	for _, l := range spec.Lemmas {
		trusted = append(trusted, "stated lemma (not machine-checked): "+l)
	}
	for _, a := range assumed {
		trusted = append(trusted, "assumed contract: "+a)
	}
	// every assumption left unchecked, in one list: the per-site assumptions noted by the generator, the property's
	// standing assumptions and trusted items, its stated lemmas, and the assumed contracts of dependency functions
	for _, t := range spec.Trusted {
		assumptions = append(assumptions, "trusted / standing assumption: "+t)
	}
	for _, l := range spec.Lemmas {
		assumptions = append(assumptions, "stated lemma (not machine-checked): "+l)
	}
	for _, a := range assumed {
		assumptions = append(assumptions, "assumed contract (not verified here): "+a)
	}
	evals, distinct := 0, 0
	for _, b := range c.Bounded {
		evals += b.Cases
		distinct += b.Distinct
	}
	cov := map[string]any{
		"obligations": nReal, "discharged": nProved,
		"checker_cmd":  fmt.Sprintf("/verif/bin/govc check %s %s", spec.ID, c.Tier),
		"trusted_base": trusted,
		"functions_under_contract": units,
		"by_backend":   byBackend,
		"solver_s":     round3(solverSecs),
		"solve_wall_s": round3(solveWall),
		"slowest":      slowest,
		"samples":      samples,
		"assumed_contracts": assumed,
		"uncontracted_callees_havocked": uncontracted,
		"stated_lemmas": nonNil(spec.Lemmas),
		"bounded":      nonNilBounded(c.Bounded),
		"known_findings": knownLines,
		"findings":     findings,
		"vacuity":      map[string]any{"probes": nProbe, "probes_not_provable": nProbeOK},
		"explanation":  spec.Explain,
		"notes":        nonNil(c.Notes),
		"functions_not_under_contract": nonNil(c.NotUnderContract),
		"integers":     "int is mathematical (A-INT); sized integers are range-checked (ovf obligations) and conversions wrap exactly",
	}
	if evals > 0 {
		cov["evaluations"] = evals
		cov["distinct_nontrivial"] = distinct
		cov["rule"] = "bounded stand-ins only (never counted as discharged obligations); see coverage.bounded[]"
	}
	ev := map[string]any{
		"property_id": spec.ID, "tier": c.Tier, "seed": c.Seed, "level": spec.Level,
		"coverage": cov, "assumptions": assumptions, "wall_s": round3(time.Since(c.t0).Seconds()), "violations": violations,
	}
	data, _ := json.MarshalIndent(ev, "", " ")
	os.WriteFile(filepath.Join("/verif/evidence", spec.ID+".json"), data, 0o644)
	if verbose {
		for _, o := range c.Obls {
			fmt.Printf("  %-8s %-70s %s %.2fs\n", o.Result.Verdict, o.Name, o.Result.Backend, o.Result.Secs)
		}
	}
	fmt.Printf("%s %s: %d/%d obligations discharged, %d vacuity probes ok, %d known findings, %d violations, %.1fs\n",
		spec.ID, c.Tier, nProved, nReal, nProbeOK, len(knownLines), violations, time.Since(c.t0).Seconds())
	if violations > 0 {
		return 1
	}
	return 0
}

func truncate(s string, n int) string {
	if len(s) > n {
		return s[:n] + "…"
	}
	return s
}

func round3(f float64) float64 { return float64(int(f*1000+0.5)) / 1000 }

func maxInt(a, b int) int {
	if a > b {
		return a
	}
	return b
}

func nonNil(s []string) []string {
	if s == nil {
		return []string{}
	}
	return s
}

func nonNilBounded(s []BoundedRun) []BoundedRun {
	if s == nil {
		return []BoundedRun{}
	}
	return s
}
