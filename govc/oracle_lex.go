package main

// Reference token automaton of the EBNF language, built from the documentation
// (/repo/docs/5-definitions.md token table + separators/comments of 6-design.md).
// This is oracle code (trusted, DESIGN.md §3.2); everything claimed about its relation
// to the real scanner is an SMT obligation.

import (
	"fmt"
	"os"
	"regexp"
	"sort"
	"strconv"
	"strings"
)

const maxRune = 0x10FFFF

// ---- regex AST over code points ----

type rnode struct {
	op   byte // 'c' class, '.' concat, '|' alt, '*' star, '+' plus, '?' opt, 'e' empty
	set  []rrange
	kids []*rnode
}

type rrange struct{ lo, hi int }

type rxParser struct {
	s string
	i int
}

func parseDocRegex(s string) (*rnode, error) {
	p := &rxParser{s: s}
	n, err := p.alt()
	if err != nil {
		return nil, err
	}
	if p.i != len(p.s) {
		return nil, fmt.Errorf("regex %q: trailing input at %d", s, p.i)
	}
	return n, nil
}

func (p *rxParser) alt() (*rnode, error) {
	first, err := p.cat()
	if err != nil {
		return nil, err
	}
	kids := []*rnode{first}
	for p.i < len(p.s) && p.s[p.i] == '|' {
		p.i++
		k, err := p.cat()
		if err != nil {
			return nil, err
		}
		kids = append(kids, k)
	}
	if len(kids) == 1 {
		return first, nil
	}
	return &rnode{op: '|', kids: kids}, nil
}

func (p *rxParser) cat() (*rnode, error) {
	var kids []*rnode
	for p.i < len(p.s) && p.s[p.i] != '|' && p.s[p.i] != ')' {
		k, err := p.rep()
		if err != nil {
			return nil, err
		}
		kids = append(kids, k)
	}
	if len(kids) == 0 {
		return &rnode{op: 'e'}, nil
	}
	if len(kids) == 1 {
		return kids[0], nil
	}
	return &rnode{op: '.', kids: kids}, nil
}

func (p *rxParser) rep() (*rnode, error) {
	a, err := p.atom()
	if err != nil {
		return nil, err
	}
	for p.i < len(p.s) && (p.s[p.i] == '*' || p.s[p.i] == '+' || p.s[p.i] == '?') {
		a = &rnode{op: p.s[p.i], kids: []*rnode{a}}
		p.i++
	}
	return a, nil
}

func (p *rxParser) escape() (int, error) {
	// p.s[p.i] == '\\'
	p.i++
	if p.i >= len(p.s) {
		return 0, fmt.Errorf("dangling backslash")
	}
	c := p.s[p.i]
	p.i++
	switch c {
	case 'x':
		j := p.i
		for j < len(p.s) && j < p.i+2 && isHex(p.s[j]) {
			j++
		}
		v, err := strconv.ParseInt(p.s[p.i:j], 16, 32)
		if err != nil {
			return 0, err
		}
		p.i = j
		return int(v), nil
	case 't':
		return '\t', nil
	case 'n':
		return '\n', nil
	case 'r':
		return '\r', nil
	}
	return int(c), nil
}

func isHex(c byte) bool {
	return c >= '0' && c <= '9' || c >= 'a' && c <= 'f' || c >= 'A' && c <= 'F'
}

func (p *rxParser) atom() (*rnode, error) {
	c := p.s[p.i]
	switch c {
	case '(':
		p.i++
		n, err := p.alt()
		if err != nil {
			return nil, err
		}
		if p.i >= len(p.s) || p.s[p.i] != ')' {
			return nil, fmt.Errorf("missing )")
		}
		p.i++
		return n, nil
	case '[':
		p.i++
		neg := false
		if p.i < len(p.s) && p.s[p.i] == '^' {
			neg = true
			p.i++
		}
		var set []rrange
		for p.i < len(p.s) && p.s[p.i] != ']' {
			lo, err := p.classChar()
			if err != nil {
				return nil, err
			}
			hi := lo
			if p.i+1 < len(p.s) && p.s[p.i] == '-' && p.s[p.i+1] != ']' {
				p.i++
				hi, err = p.classChar()
				if err != nil {
					return nil, err
				}
			}
			set = append(set, rrange{lo, hi})
		}
		if p.i >= len(p.s) {
			return nil, fmt.Errorf("missing ]")
		}
		p.i++
		set = normRanges(set)
		if neg {
			set = complementRanges(set)
		}
		return &rnode{op: 'c', set: set}, nil
	case '\\':
		v, err := p.escape()
		if err != nil {
			return nil, err
		}
		return &rnode{op: 'c', set: []rrange{{v, v}}}, nil
	}
	p.i++
	return &rnode{op: 'c', set: []rrange{{int(c), int(c)}}}, nil
}

func (p *rxParser) classChar() (int, error) {
	if p.s[p.i] == '\\' {
		return p.escape()
	}
	c := p.s[p.i]
	p.i++
	return int(c), nil
}

func normRanges(rs []rrange) []rrange {
	sort.Slice(rs, func(i, j int) bool { return rs[i].lo < rs[j].lo })
	var out []rrange
	for _, r := range rs {
		if len(out) > 0 && r.lo <= out[len(out)-1].hi+1 {
			if r.hi > out[len(out)-1].hi {
				out[len(out)-1].hi = r.hi
			}
			continue
		}
		out = append(out, r)
	}
	return out
}

func complementRanges(rs []rrange) []rrange {
	var out []rrange
	prev := 0
	for _, r := range rs {
		if r.lo > prev {
			out = append(out, rrange{prev, r.lo - 1})
		}
		prev = r.hi + 1
	}
	if prev <= maxRune {
		out = append(out, rrange{prev, maxRune})
	}
	return out
}

func litNode(s string) *rnode {
	var kids []*rnode
	for _, c := range []byte(s) {
		kids = append(kids, &rnode{op: 'c', set: []rrange{{int(c), int(c)}}})
	}
	if len(kids) == 1 {
		return kids[0]
	}
	return &rnode{op: '.', kids: kids}
}

// ---- NFA (Thompson) ----

type nfaT struct {
	eps   [][]int
	edges [][]nedge
	acc   map[int]int // state -> label
}

type nedge struct {
	set []rrange
	to  int
}

func (n *nfaT) newState() int {
	n.eps = append(n.eps, nil)
	n.edges = append(n.edges, nil)
	return len(n.eps) - 1
}

func (n *nfaT) build(r *rnode) (int, int) {
	switch r.op {
	case 'e':
		s := n.newState()
		return s, s
	case 'c':
		s, t := n.newState(), n.newState()
		n.edges[s] = append(n.edges[s], nedge{r.set, t})
		return s, t
	case '.':
		s, t := n.build(r.kids[0])
		for _, k := range r.kids[1:] {
			s2, t2 := n.build(k)
			n.eps[t] = append(n.eps[t], s2)
			t = t2
		}
		return s, t
	case '|':
		s, t := n.newState(), n.newState()
		for _, k := range r.kids {
			s2, t2 := n.build(k)
			n.eps[s] = append(n.eps[s], s2)
			n.eps[t2] = append(n.eps[t2], t)
		}
		return s, t
	case '*', '+', '?':
		s, t := n.newState(), n.newState()
		s2, t2 := n.build(r.kids[0])
		n.eps[s] = append(n.eps[s], s2)
		n.eps[t2] = append(n.eps[t2], t)
		if r.op != '+' {
			n.eps[s] = append(n.eps[s], t)
		}
		if r.op != '?' {
			n.eps[t2] = append(n.eps[t2], s2)
		}
		return s, t
	}
	panic("bad regex node")
}

// ---- DFA over an interval partition of the code points ----

type refDFA struct {
	cuts  []int   // interval i = [cuts[i], cuts[i+1]-1]; last interval ends at maxRune
	trans [][]int // state x interval -> state (-1 dead)
	label []int   // state -> token label (-1 = not accepting)
	start int
}

func (d *refDFA) interval(r int) int {
	i := sort.SearchInts(d.cuts, r+1) - 1
	return i
}

func (d *refDFA) step(q, r int) int {
	if q < 0 || r < 0 || r > maxRune {
		return -1
	}
	return d.trans[q][d.interval(r)]
}

func closure(n *nfaT, set map[int]bool) {
	var stack []int
	for s := range set {
		stack = append(stack, s)
	}
	for len(stack) > 0 {
		s := stack[len(stack)-1]
		stack = stack[:len(stack)-1]
		for _, t := range n.eps[s] {
			if !set[t] {
				set[t] = true
				stack = append(stack, t)
			}
		}
	}
}

func setKey(set map[int]bool) string {
	var ks []int
	for k := range set {
		ks = append(ks, k)
	}
	sort.Ints(ks)
	var b strings.Builder
	for _, k := range ks {
		fmt.Fprintf(&b, "%d,", k)
	}
	return b.String()
}

// determinize with label priority: smaller label wins.
func determinize(n *nfaT, start int) *refDFA {
	cutset := map[int]bool{0: true}
	for _, es := range n.edges {
		for _, e := range es {
			for _, r := range e.set {
				cutset[r.lo] = true
				if r.hi+1 <= maxRune {
					cutset[r.hi+1] = true
				}
			}
		}
	}
	var cuts []int
	for c := range cutset {
		cuts = append(cuts, c)
	}
	sort.Ints(cuts)
	d := &refDFA{cuts: cuts}
	idx := map[string]int{}
	var sets []map[int]bool
	add := func(set map[int]bool) int {
		k := setKey(set)
		if i, ok := idx[k]; ok {
			return i
		}
		idx[k] = len(sets)
		sets = append(sets, set)
		lab := -1
		for s := range set {
			if l, ok := n.acc[s]; ok && (lab < 0 || l < lab) {
				lab = l
			}
		}
		d.label = append(d.label, lab)
		d.trans = append(d.trans, nil)
		return len(sets) - 1
	}
	s0 := map[int]bool{start: true}
	closure(n, s0)
	d.start = add(s0)
	for i := 0; i < len(sets); i++ {
		row := make([]int, len(cuts))
		for ci, c := range cuts {
			next := map[int]bool{}
			for s := range sets[i] {
				for _, e := range n.edges[s] {
					for _, r := range e.set {
						if r.lo <= c && c <= r.hi {
							next[e.to] = true
						}
					}
				}
			}
			if len(next) == 0 {
				row[ci] = -1
				continue
			}
			closure(n, next)
			row[ci] = add(next)
		}
		d.trans[i] = row
	}
	return d
}

// minimize by partition refinement (Moore), keeping labels distinct; state 0 stays the start.
func (d *refDFA) minimize() *refDFA {
	n := len(d.trans)
	class := make([]int, n)
	for i := range class {
		class[i] = d.label[i] + 1
	}
	for {
		sig := map[string]int{}
		next := make([]int, n)
		for i := 0; i < n; i++ {
			var b strings.Builder
			fmt.Fprintf(&b, "%d|", class[i])
			for _, t := range d.trans[i] {
				if t < 0 {
					b.WriteString("-,")
				} else {
					fmt.Fprintf(&b, "%d,", class[t])
				}
			}
			k := b.String()
			if _, ok := sig[k]; !ok {
				sig[k] = len(sig)
			}
			next[i] = sig[k]
		}
		same := true
		// compare partitions (number of classes is enough since refinement is monotone)
		cnt := map[int]bool{}
		for _, c := range class {
			cnt[c] = true
		}
		if len(cnt) != len(sig) {
			same = false
		}
		class = next
		if same {
			break
		}
	}
	// renumber by BFS from start for a canonical order
	order := map[int]int{}
	queue := []int{d.start}
	order[class[d.start]] = 0
	rep := map[int]int{class[d.start]: d.start}
	for qi := 0; qi < len(queue); qi++ {
		s := queue[qi]
		for _, t := range d.trans[s] {
			if t < 0 {
				continue
			}
			if _, ok := order[class[t]]; !ok {
				order[class[t]] = len(order)
				rep[class[t]] = t
				queue = append(queue, t)
			}
		}
	}
	m := &refDFA{cuts: d.cuts, start: 0, trans: make([][]int, len(order)), label: make([]int, len(order))}
	for c, i := range order {
		s := rep[c]
		row := make([]int, len(d.cuts))
		for ci, t := range d.trans[s] {
			if t < 0 {
				row[ci] = -1
			} else {
				row[ci] = order[class[t]]
			}
		}
		m.trans[i] = row
		m.label[i] = d.label[s]
	}
	return m.trimDead()
}

// trimDead turns transitions into states from which no accepting state is reachable into dead (-1).
func (d *refDFA) trimDead() *refDFA {
	n := len(d.trans)
	live := make([]bool, n)
	for i := range live {
		live[i] = d.label[i] >= 0
	}
	for changed := true; changed; {
		changed = false
		for i := 0; i < n; i++ {
			if live[i] {
				continue
			}
			for _, t := range d.trans[i] {
				if t >= 0 && live[t] {
					live[i] = true
					changed = true
					break
				}
			}
		}
	}
	for i := 0; i < n; i++ {
		for ci, t := range d.trans[i] {
			if t >= 0 && !live[t] {
				d.trans[i][ci] = -1
			}
		}
	}
	return d
}

// ---- the documented token table ----

type docToken struct {
	Name    string
	Literal string // for string rows
	Regex   string // for regex rows
	Skip    bool   // separators / comments
}

var tokenRowRE = regexp.MustCompile("^\\|\\s*`([A-Z]+)`\\s*\\|\\s*`(.+?)`\\s*\\|")

func readDocTokens(repo string) ([]docToken, error) {
	data, err := os.ReadFile(repo + "/docs/5-definitions.md")
	if err != nil {
		return nil, err
	}
	var toks []docToken
	in := false
	for _, line := range strings.Split(string(data), "\n") {
		if strings.HasPrefix(line, "### Tokens") {
			in = true
			continue
		}
		if in && strings.HasPrefix(line, "### ") {
			break
		}
		if !in {
			continue
		}
		m := tokenRowRE.FindStringSubmatch(line)
		if m == nil {
			continue
		}
		lex := strings.ReplaceAll(m[2], `\|`, `|`) // markdown table escape
		t := docToken{Name: m[1]}
		switch {
		case strings.HasPrefix(lex, `"`):
			j := strings.Index(lex[1:], `"`)
			if j < 0 {
				return nil, fmt.Errorf("bad token row %q", line)
			}
			t.Literal = lex[1 : 1+j]
		case strings.HasPrefix(lex, "/") && strings.HasSuffix(lex, "/"):
			t.Regex = lex[1 : len(lex)-1]
		default:
			return nil, fmt.Errorf("bad token row %q", line)
		}
		toks = append(toks, t)
	}
	if len(toks) < 10 {
		return nil, fmt.Errorf("token table not found in docs/5-definitions.md (%d rows)", len(toks))
	}
	return toks, nil
}

type LexOracle struct {
	Tokens []docToken // label i = Tokens[i]
	DFA    *refDFA
}

// buildLexOracle: the reference automaton.
//   - string rows before regex rows (keywords win over identifiers): labels ordered literals first
//   - separators and comments as described in 6-design.md
//   - a REGEX lexeme never starts with "//" or "/*" (those start comments)
func buildLexOracle(repo string) (*LexOracle, error) {
	rows, err := readDocTokens(repo)
	if err != nil {
		return nil, err
	}
	var ordered []docToken
	for _, r := range rows {
		if r.Literal != "" {
			ordered = append(ordered, r)
		}
	}
	// separators / comments (6-design.md): skipped
	ordered = append(ordered,
		docToken{Name: "WS", Regex: `[\t ]+`, Skip: true},
		docToken{Name: "EOL", Regex: `[\n\r]+`, Skip: true},
		docToken{Name: "COMMENT", Regex: `//[\t\x20-\x7E]*|/\*([\t\n\r\x20-\x29\x2B-\x7E]|\*+[\t\n\r\x20-\x29\x2B-\x2E\x30-\x7E])*\*+/`, Skip: true})
	for _, r := range rows {
		if r.Literal == "" {
			ordered = append(ordered, r)
		}
	}
	n := &nfaT{acc: map[int]int{}}
	start := n.newState()
	for i, t := range ordered {
		var ast *rnode
		if t.Literal != "" {
			ast = litNode(t.Literal)
		} else {
			ast, err = parseDocRegex(t.Regex)
			if err != nil {
				return nil, fmt.Errorf("token %s: %v", t.Name, err)
			}
		}
		s, e := n.build(ast)
		n.eps[start] = append(n.eps[start], s)
		n.acc[e] = i
	}
	d := determinize(n, start)
	// REGEX never starts with // or /*: with COMMENT ordered before REGEX the comment label already wins on
	// strings both match; strings of the form /*.../ that are not complete comments must not be REGEX:
	regexLabel, commentLabel := -1, -1
	for i, t := range ordered {
		if t.Name == "REGEX" {
			regexLabel = i
		}
		if t.Name == "COMMENT" {
			commentLabel = i
		}
	}
	_ = commentLabel
	if regexLabel >= 0 {
		// states reached by a string starting with "/*" or "//": clear a REGEX label there.
		slash := d.step(d.start, '/')
		for _, second := range []int{'*', '/'} {
			if slash < 0 {
				break
			}
			from := d.step(slash, second)
			if from < 0 {
				continue
			}
			// a state may also be reachable by strings not starting with the comment opener; to stay exact,
			// unfold: build the sub-automaton reachable from `from` as fresh states.
			d.unfoldFrom(slash, second, regexLabel)
		}
	}
	d = d.minimize()
	return &LexOracle{Tokens: ordered, DFA: d}, nil
}

// unfoldFrom copies the part of the automaton reachable from trans[src][r] into fresh states,
// removing label `drop` there, and redirects the (src, r) edge to the copy.
func (d *refDFA) unfoldFrom(src, r, drop int) {
	ci := d.interval(r)
	root := d.trans[src][ci]
	if root < 0 {
		return
	}
	cp := map[int]int{}
	var order []int
	var visit func(s int) int
	visit = func(s int) int {
		if c, ok := cp[s]; ok {
			return c
		}
		c := len(d.trans)
		cp[s] = c
		order = append(order, s)
		d.trans = append(d.trans, nil)
		lab := d.label[s]
		if lab == drop {
			lab = -1
		}
		d.label = append(d.label, lab)
		row := make([]int, len(d.cuts))
		for i, t := range d.trans[s] {
			if t < 0 {
				row[i] = -1
			} else {
				row[i] = visit(t)
			}
		}
		d.trans[c] = row
		return c
	}
	// the interval containing r must be exactly {r}; ensure by construction of cuts ('*' and '/' are cut points
	// because they appear as singletons in the comment regex)
	d.trans[src][ci] = visit(root)
}

// smt renders specDelta / specKind as SMT-LIB definitions over Int.
//   specDelta(q, r): next reference state or -1; specKind(q): token label or -1.
func (o *LexOracle) smt() string {
	d := o.DFA
	var b strings.Builder
	b.WriteString("; reference token automaton generated from docs/5-definitions.md and docs/6-design.md\n")
	b.WriteString("(define-fun specDelta ((q Int) (r Int)) Int\n")
	closeParens := 0
	for q := range d.trans {
		// group consecutive intervals with the same target
		type seg struct{ lo, hi, to int }
		var segs []seg
		for ci, t := range d.trans[q] {
			lo := d.cuts[ci]
			hi := maxRune
			if ci+1 < len(d.cuts) {
				hi = d.cuts[ci+1] - 1
			}
			if len(segs) > 0 && segs[len(segs)-1].to == t && segs[len(segs)-1].hi+1 == lo {
				segs[len(segs)-1].hi = hi
			} else {
				segs = append(segs, seg{lo, hi, t})
			}
		}
		fmt.Fprintf(&b, " (ite (= q %d)", q)
		inner := 0
		for _, s := range segs {
			if s.to < 0 {
				continue
			}
			fmt.Fprintf(&b, " (ite (and (<= %d r) (<= r %d)) %d", s.lo, s.hi, s.to)
			inner++
		}
		b.WriteString(" (- 1)")
		b.WriteString(strings.Repeat(")", inner))
		b.WriteString("\n")
		closeParens++
	}
	b.WriteString(" (- 1)")
	b.WriteString(strings.Repeat(")", closeParens))
	b.WriteString(")\n")
	b.WriteString("(define-fun specKind ((q Int)) Int")
	cnt := 0
	for q, l := range d.label {
		if l >= 0 {
			fmt.Fprintf(&b, " (ite (= q %d) %d", q, l)
			cnt++
		}
	}
	b.WriteString(" (- 1)" + strings.Repeat(")", cnt) + ")\n")
	return b.String()
}
