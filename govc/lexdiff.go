package main

// Differential replay for the EBNF scanner: the REAL lexer (lexer.New(...).NextToken) is run on given
// inputs inside its own package through `go test -overlay`, and its token stream is compared with the
// reference tokenizer (longest run of the reference automaton, as the property words it).
// Used to replay failed C05/C13/C20 obligations (witness search) and as a bounded stand-in in the thorough tier.

import (
	"fmt"
	"path/filepath"
	"strings"
	"time"
)

type LexDiff struct {
	Input string
	Real  string
	Ref   string
}

func goIntTable(rows [][]int) string {
	var b strings.Builder
	b.WriteString("[][]int{\n")
	for _, r := range rows {
		b.WriteString("\t{")
		for i, v := range r {
			if i > 0 {
				b.WriteString(",")
			}
			fmt.Fprint(&b, v)
		}
		b.WriteString("},\n")
	}
	b.WriteString("}")
	return b.String()
}

func lexDiffTestSource(or *LexOracle, inputs []string) string {
	d := or.DFA
	var b strings.Builder
	b.WriteString(`package lexer

import (
	"errors"
	"fmt"
	"io"
	"sort"
	"strings"
	"testing"
)

var govcCuts = []int{`)
	for i, c := range d.cuts {
		if i > 0 {
			b.WriteString(",")
		}
		fmt.Fprint(&b, c)
	}
	b.WriteString("}\nvar govcTrans = " + goIntTable(d.trans) + "\nvar govcLabel = []int{")
	for i, l := range d.label {
		if i > 0 {
			b.WriteString(",")
		}
		fmt.Fprint(&b, l)
	}
	b.WriteString("}\nvar govcNames = []string{")
	for _, t := range or.Tokens {
		n := t.Name
		if t.Literal != "" {
			n = t.Literal
		}
		fmt.Fprintf(&b, "%q,", n)
	}
	b.WriteString("}\nvar govcLiteral = []bool{")
	for _, t := range or.Tokens {
		fmt.Fprintf(&b, "%v,", t.Literal != "")
	}
	b.WriteString("}\nvar govcSkip = []bool{")
	for _, t := range or.Tokens {
		fmt.Fprintf(&b, "%v,", t.Skip)
	}
	b.WriteString("}\nvar govcInputs = []string{\n")
	for _, in := range inputs {
		fmt.Fprintf(&b, "\t%q,\n", in)
	}
	b.WriteString(`}

func govcStep(q int, r rune) int {
	if q < 0 || r < 0 {
		return -1
	}
	i := sort.SearchInts(govcCuts, int(r)+1) - 1
	return govcTrans[q][i]
}

// govcRef: the token stream the documentation prescribes.
func govcRef(src string) []string {
	rs := []rune(src)
	var out []string
	p, line, col := 0, 1, 1
	for p < len(rs) {
		q, k := 0, p
		for k < len(rs) {
			n := govcStep(q, rs[k])
			if n < 0 {
				break
			}
			q = n
			k++
		}
		lab := -1
		if k > p {
			lab = govcLabel[q]
		}
		if lab < 0 {
			out = append(out, fmt.Sprintf("ERR@%d:%d", line, col))
			return out
		}
		text := string(rs[p:k])
		if !govcSkip[lab] {
			lex := text
			switch {
			case govcLiteral[lab]:
				lex = govcNames[lab]
			case govcNames[lab] == "STRING" || govcNames[lab] == "REGEX":
				lex = string(rs[p+1 : k-1])
			}
			out = append(out, fmt.Sprintf("%s %q @%d:%d:%d", govcNames[lab], lex, p, line, col))
		}
		for _, r := range rs[p:k] {
			if r == '\n' {
				line++
				col = 1
			} else {
				col++
			}
		}
		p = k
	}
	out = append(out, "EOF")
	return out
}

func govcReal(src string) (out []string) {
	defer func() {
		if r := recover(); r != nil {
			out = append(out, fmt.Sprintf("PANIC %v", r))
		}
	}()
	l, err := New("", strings.NewReader(src))
	if err != nil {
		if errors.Is(err, io.EOF) {
			return []string{"EOF"}
		}
		return []string{"NEWERR " + err.Error()}
	}
	for i := 0; i < 100000; i++ {
		tok, err := l.NextToken()
		if err != nil {
			if errors.Is(err, io.EOF) {
				return append(out, "EOF")
			}
			return append(out, "ERRMSG "+err.Error())
		}
		out = append(out, fmt.Sprintf("%s %q @%d:%d:%d", string(tok.Terminal), tok.Lexeme, tok.Pos.Offset, tok.Pos.Line, tok.Pos.Column))
	}
	return append(out, "NONTERMINATION")
}

func TestGovcLexDiff(t *testing.T) {
	for _, in := range govcInputs {
		ref, real := govcRef(in), govcReal(in)
		same := len(ref) == len(real)
		for i := 0; same && i < len(ref); i++ {
			if ref[i] == real[i] {
				continue
			}
			// an error entry matches a real lexical error reported at the same line:column
			if strings.HasPrefix(ref[i], "ERR@") && strings.HasPrefix(real[i], "ERRMSG ") && strings.Contains(real[i], " "+ref[i][4:]+":") {
				continue
			}
			same = false
		}
		if same {
			fmt.Printf("GOVC-SAME %q\n", in)
		} else {
			fmt.Printf("GOVC-DIFF %q\tREAL %s\tREF %s\n", in, strings.Join(real, " | "), strings.Join(ref, " | "))
		}
	}
}
`)
	return b.String()
}

// runLexDiff runs the differential test and returns the inputs on which real and reference differ.
func runLexDiff(repo string, or *LexOracle, inputs []string) (diffs []LexDiff, same int, raw string, err error) {
	src := lexDiffTestSource(or, inputs)
	out, err := runOverlayTest(repo, filepath.Join(repo, "internal/ebnf/lexer"), src, "TestGovcLexDiff$", 120*time.Second)
	for _, l := range strings.Split(out, "\n") {
		switch {
		case strings.HasPrefix(l, "GOVC-SAME "):
			same++
		case strings.HasPrefix(l, "GOVC-DIFF "):
			parts := strings.Split(l[10:], "\t")
			d := LexDiff{Input: parts[0]}
			if len(parts) > 1 {
				d.Real = strings.TrimPrefix(parts[1], "REAL ")
			}
			if len(parts) > 2 {
				d.Ref = strings.TrimPrefix(parts[2], "REF ")
			}
			diffs = append(diffs, d)
		}
	}
	if same+len(diffs) == 0 {
		return nil, 0, out, fmt.Errorf("differential test did not run: %v", err)
	}
	return diffs, same, out, nil
}
