package main

// C18 (callbacks in derivation order with right values; errors abort), C20 (errors at the first offending token).

func prepareAll(c *CheckCtx) error {
	if err := prepareLexOracle(c); err != nil {
		return err
	}
	return prepareLALROracle(c)
}

func init() {
	register(&PropSpec{
		ID: "C18", Level: "proof",
		Pkgs:    []string{"./internal/ebnf/parser"},
		Prepare: prepareAll,
		Extra:   c04Extra,
		Select: []Selector{
			{Units: `ebnf/parser\.Parser\.Parse$`},
			{Units: `ebnf/parser\.Parser\.ParseAndEvaluate(\$\d+)?$`},
			{Units: `ebnf/parser\.Parser\.nextToken$`},
			{Units: `ebnf/parser\.(ACTION|GOTO)$`, Kinds: `^(post|vacuity)$`},
		},
		Replay: replayScalar,
		Lemmas: []string{"L-LR: the sequence of reductions of the shift-reduce driver over a conflict-free LALR(1) table is a rightmost derivation in reverse (Aho et al. §4.5-4.7); the obligations prove that each loop iteration is exactly one step of that machine and that callbacks fire once per step, in order, with the step's values"},
		Trusted: []string{"oracle: reference LALR(1)+precedence table (/verif/govc/oracle_lalr.go)",
			"assumption A-CALLBACK-FRAME: client-supplied callbacks (tokenF, prodF, eval) write nothing the driver or the value stack reads; checked for every function literal the repository passes (refine[...] obligations), assumed for callbacks of external callers",
			"assumption A-TABLES: the package-level tables (productions) are never written after initialisation"},
	})
	register(&PropSpec{
		ID: "C20", Level: "proof",
		Pkgs:    []string{"./internal/ebnf/parser", "./internal/ebnf/lexer"},
		Prepare: prepareAll,
		Extra:   c04Extra,
		Select: []Selector{
			{Units: `ebnf/parser\.Parser\.Parse$`, Kinds: `^(post|inv-init|inv-pres|step|pre|vacuity)$`},
			{Units: `ebnf/parser\.Parser\.nextToken$`, Kinds: `^(post|vacuity)$`},
			{Units: `ebnf/parser\.ACTION$`, Kinds: `^(post|vacuity)$`},
			{Units: `ebnf/lexer\.Lexer\.NextToken$`, Kinds: `^(post|inv-init|inv-pres|pre|term|vacuity)$`},
			{Units: `ebnf/lexer\.Lexer\.evalDFA$`, Names: `#(post\[errmsg\]|post\[2\]|vacuity)`},
			// positions are positions in the given source (the scanner is built over it, unread and untrimmed) and the
			// wrappers add nothing between the source and the driver (no reading ahead of the first offending token)
			{Units: `ebnf/lexer\.New$`},
			{Units: `ebnf/parser\.Parser\.(ParseAndEvaluate|ParseAndBuildAST)(\$\d+)?$`, Kinds: `^(post|pre|provides|refine|frame|callsite|vacuity)$`},
		},
		Replay: replayLex,
		Lemmas: []string{"L-PREFIX: an LALR(1) parser never shifts a token after which no sentence can continue; it may perform reductions before announcing the error, the look-ahead is unchanged by them (Aho et al. §4.7.4)"},
		Trusted: []string{"oracle: reference LALR(1)+precedence table", "oracle: reference token automaton"},
	})
}
