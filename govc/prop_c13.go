package main

// C13 — the result depends only on the token sequence.
//
// Layer 1 (proved): the scanner's token function skips separators and comments and is a function of the source
// text; nextToken passes tokens through; the optional-semicolon / declaration-list actions have no effect; the
// definition list is in the table's canonical order (not the order or position of the declarations).
// Layer 2 (bounded stand-in, labelled bounded): the abstract cursor that layer 1 assumes for the reader is compared
// with the REAL two-buffer reader of the dependency on an enumerated space; its known deviations are findings.

import (
	"bufio"
	"bytes"
	"fmt"
	"os"
	"os/exec"
	"path/filepath"
	"regexp"
	"strconv"
	"strings"
	"time"
)

const inputPkgKey = "github.com/moorara/algo/lexer/input.Input"

var conformWhat = map[string]string{
	"eof-sticky-after-retract":         "after the last rune has been read the reader's end-of-input error is sticky: Retract does not clear it, so the retracted rune is never delivered again (the last character of a file is lost when it is the first character of a new token, e.g. \"a *\" or a specification ending in \") \" without a newline)",
	"reload-after-retract-across-half": "Retract across a buffer-half boundary followed by Next reloads the half that is already loaded: the following block of the input is skipped or the input ends early (files whose tokens end exactly at a half boundary are mis-read)",
	"lexeme-loop-diverges":             "when the input ends exactly at the end of the second buffer half, forward stays at len(buff) and Lexeme's copy loop never terminates (memory grows until the process is killed): a file of exactly 2*N*k bytes ending in an identifier / string / pattern hangs the tool",
}

// conformInput runs the harness /verif/harness/input_conform_test.go.txt inside the lexer package through an overlay.
func conformInput(c *CheckCtx, only map[string]bool) error {
	t0 := time.Now()
	dir := filepath.Join(scratch(), "conform")
	os.MkdirAll(dir, 0o755)
	src, err := os.ReadFile("/verif/harness/input_conform_test.go.txt")
	if err != nil {
		return err
	}
	tf := filepath.Join(dir, "zz_conform_test.go")
	os.WriteFile(tf, src, 0o644)
	ov := filepath.Join(dir, "ov.json")
	os.WriteFile(ov, []byte(fmt.Sprintf(`{"Replace":{%q:%q}}`, filepath.Join(c.Repo, "internal/ebnf/lexer/zz_conform_test.go"), tf)), 0o644)
	cmd := exec.Command("go", "test", "-overlay", ov, "-vet=off", "-count=1", "-timeout", "300s", "-v", "-run", "TestZZInputConformance", "./internal/ebnf/lexer")
	cmd.Dir = c.Repo
	cmd.Env = append(os.Environ(), "GOFLAGS=-mod=mod", "GOPROXY=off")
	bound := "N=2, every source of <= 4 characters over {a, LF, e-acute}, every sequence of <= 5 operations Next/Retract/Lexeme/Skip (Retract only right after a Next)"
	if c.Tier == "thorough" {
		cmd.Env = append(cmd.Env, "GOVC_CONFORM_BOUND=thorough")
		bound = "N in {1,2,3,4}, sources up to 9 characters over small alphabets incl. a 2-byte rune, operation sequences up to 7"
	}
	var out bytes.Buffer
	cmd.Stdout = &out
	cmd.Stderr = &out
	runErr := cmd.Run()
	re := regexp.MustCompile(`^CONFORM-FAIL class=(\S+) n=(\d+) src=("(?:[^"\\]|\\.)*") ops=(\S+) detail=(.*)$`)
	sum := regexp.MustCompile(`^CONFORM-SUMMARY cases=(\d+) passing=(\d+) classes=(\d+)`)
	br := BoundedRun{Name: "conformance of the real input.Input with the assumed inputBuffer cursor contract", Bound: bound}
	sawSummary := false
	sc := bufio.NewScanner(&out)
	sc.Buffer(make([]byte, 1<<20), 1<<20)
	for sc.Scan() {
		line := sc.Text()
		if m := sum.FindStringSubmatch(line); m != nil {
			br.Cases, _ = strconv.Atoi(m[1])
			br.Distinct, _ = strconv.Atoi(m[2])
			sawSummary = true
			continue
		}
		m := re.FindStringSubmatch(line)
		if m == nil {
			continue
		}
		cls := m[1]
		br.Failures = append(br.Failures, line)
		if only != nil && !only[cls] {
			continue
		}
		what := conformWhat[cls]
		if what == "" {
			what = "the real reader deviates from the cursor contract in a way that is not one of the recorded classes"
		}
		srcText, _ := strconv.Unquote(m[3])
		c.ExtraFindings = append(c.ExtraFindings, Finding{
			Obligation: fmt.Sprintf("%s#conform[%s]", inputPkgKey, cls),
			What:       fmt.Sprintf("bounded conformance (N=%s, source %s, operations %s): %s; %s", m[2], m[3], m[4], m[5], what),
			HasInput:   true,
			Replay: map[string]any{"kind": "bounded conformance run against the real code", "buffer_half": m[2], "failing_input": srcText, "operations": m[4],
				"observed_vs_required": m[5], "confirmed_on_real_code": true, "harness": "/verif/harness/input_conform_test.go.txt (go test -overlay, package internal/ebnf/lexer)"}})
	}
	br.Secs = round3(time.Since(t0).Seconds())
	c.Bounded = append(c.Bounded, br)
	if !sawSummary {
		return fmt.Errorf("conformance harness did not complete: %v\n%s", runErr, truncate(out.String(), 2000))
	}
	_ = strings.TrimSpace
	return nil
}

func init() {
	register(&PropSpec{
		ID: "C13", Level: "other",
		Pkgs:    []string{"./internal/ebnf/lexer", "./internal/ebnf/parser", "./internal/ebnf/parser/spec"},
		Prepare: prepareAll,
		Extra:   func(c *CheckCtx) error { return conformInput(c, nil) },
		Select: []Selector{
			{Units: `ebnf/lexer\.New$`},
			{Units: `ebnf/lexer\.Lexer\.NextToken$`, Kinds: `^(post|inv-init|inv-pres|pre|term|vacuity)$`},
			{Units: `ebnf/lexer\.Lexer\.evalDFA$`, Names: `#(post\[(0|2|3)\]|vacuity)`},
			{Units: `ebnf/lexer\.advanceDFA$`, Kinds: `^(post|vacuity)$`},
			{Units: `ebnf/parser\.Parser\.nextToken$`},
			{Units: specPkgRe + `Parse\$1$`, Names: `#post\[(layout-actions-have-no-effect|c0-definitions-in-canonical-order)`},
			{Units: specPkgRe + `SymbolTable\.Definitions(\$1)?$`, Kinds: `^(post|inv-init|inv-pres|refine|vacuity)$`},
		},
		Replay: replayLex,
		Explain: "Layer 1, proved for all source texts (relative to the abstract cursor): NextToken returns the longest-run token at the first significant position - whitespace, line ends and both comment forms are skipped, tokens are neither merged nor split by layout, positions are those of the token's first character - so the token sequence is a function of the text only; nextToken hands every token through unchanged and maps end of input to the end marker; the actions for the optional semicolon, declaration wrappers and declaration lists return nothing and change nothing; the accepted Spec lists its definitions in the symbol table's canonical order (sorted by a comparator that does not look at positions). Layer 2, BOUNDED stand-in (never counted as proved): the real two-buffer reader of the dependency is compared with that abstract cursor on every small source and operation sequence (see coverage.bounded); it deviates in three ways, all in dependency code and recorded as known findings: a sticky end-of-input error after Retract, a double reload after retracting across a half boundary, and a non-terminating Lexeme when the input ends exactly at the end of the second half. NOT decided: the refinement proof of the reader for all buffer sizes and files.",
		Lemmas:  []string{"L-BISIM (see C05)"},
		Trusted: []string{"assumed: the inputBuffer cursor contract (idealised: see the bounded run and its findings), A-NONUL, A-LEXLEN (no token longer than one buffer half), A-READER"},
	})
}
