package main

// Reference LALR(1)+precedence table constructor (oracle for C04/C06/C20).
// Textbook construction: canonical LR(1) collection, states with equal cores merged.
// Deliberately not the lookahead-propagation algorithm the dependency uses.

import (
	"fmt"
	"sort"
	"strings"
)

type GSym struct {
	Name string
	Term bool
}

type GProd struct {
	Head string
	Body []GSym
}

func (p GProd) String() string {
	var b []string
	for _, s := range p.Body {
		if s.Term {
			b = append(b, fmt.Sprintf("%q", s.Name))
		} else {
			b = append(b, s.Name)
		}
	}
	if len(b) == 0 {
		b = []string{"ε"}
	}
	return p.Head + " → " + strings.Join(b, " ")
}

func (p GProd) key() string { return p.String() }

type GPrecLevel struct {
	Assoc string // "left" | "right" | "none"
	Terms []string
	Prods []GProd // explicit production handles
}

type Grammar struct {
	Prods []GProd
	Start string
	Prec  []GPrecLevel
}

const endMarker = "\uEEEE" // grammar.Endmarker

// ---- LR(1) construction ----

type lrItem struct {
	prod, dot int
	la        string
}

type lrState struct {
	items map[lrItem]bool
	trans map[string]int // symbol key -> state
}

func symKey(s GSym) string {
	if s.Term {
		return "t:" + s.Name
	}
	return "n:" + s.Name
}

type LALRTable struct {
	G        *Grammar
	NStates  int
	Action   []map[string]LAct // state -> terminal -> action
	Goto     []map[string]int  // state -> non-terminal -> state
	Conflicts []string         // unresolved
	Resolved  []string         // conflicts resolved by precedence (for cert[conflict-set])
	Access    []string         // accessing symbol key of each state ("" for state 0)
}

type LAct struct {
	Kind  string // "shift" | "reduce" | "accept"
	Param int    // target state | production index
}

func buildLALR(g *Grammar) *LALRTable {
	// augmented production index = len(g.Prods)
	prods := append(append([]GProd{}, g.Prods...), GProd{Head: "$accept", Body: []GSym{{g.Start, false}}})
	aug := len(prods) - 1
	byHead := map[string][]int{}
	for i, p := range prods {
		byHead[p.Head] = append(byHead[p.Head], i)
	}
	// nullable / FIRST
	nullable := map[string]bool{}
	first := map[string]map[string]bool{}
	for changed := true; changed; {
		changed = false
		for _, p := range prods {
			if first[p.Head] == nil {
				first[p.Head] = map[string]bool{}
			}
			allNull := true
			for _, s := range p.Body {
				if s.Term {
					if !first[p.Head][s.Name] {
						first[p.Head][s.Name] = true
						changed = true
					}
					allNull = false
					break
				}
				for t := range first[s.Name] {
					if !first[p.Head][t] {
						first[p.Head][t] = true
						changed = true
					}
				}
				if !nullable[s.Name] {
					allNull = false
					break
				}
			}
			if allNull && !nullable[p.Head] {
				nullable[p.Head] = true
				changed = true
			}
		}
	}
	firstOfSeq := func(seq []GSym, la string) map[string]bool {
		out := map[string]bool{}
		for _, s := range seq {
			if s.Term {
				out[s.Name] = true
				return out
			}
			for t := range first[s.Name] {
				out[t] = true
			}
			if !nullable[s.Name] {
				return out
			}
		}
		out[la] = true
		return out
	}
	closure := func(items map[lrItem]bool) {
		work := make([]lrItem, 0, len(items))
		for it := range items {
			work = append(work, it)
		}
		for len(work) > 0 {
			it := work[len(work)-1]
			work = work[:len(work)-1]
			p := prods[it.prod]
			if it.dot >= len(p.Body) || p.Body[it.dot].Term {
				continue
			}
			B := p.Body[it.dot].Name
			las := firstOfSeq(p.Body[it.dot+1:], it.la)
			for _, pi := range byHead[B] {
				for la := range las {
					n := lrItem{pi, 0, la}
					if !items[n] {
						items[n] = true
						work = append(work, n)
					}
				}
			}
		}
	}
	itemsKey := func(items map[lrItem]bool) string {
		ks := make([]string, 0, len(items))
		for it := range items {
			ks = append(ks, fmt.Sprintf("%d.%d.%s", it.prod, it.dot, it.la))
		}
		sort.Strings(ks)
		return strings.Join(ks, "|")
	}
	coreKey := func(items map[lrItem]bool) string {
		seen := map[string]bool{}
		for it := range items {
			seen[fmt.Sprintf("%d.%d", it.prod, it.dot)] = true
		}
		ks := make([]string, 0, len(seen))
		for k := range seen {
			ks = append(ks, k)
		}
		sort.Strings(ks)
		return strings.Join(ks, "|")
	}
	// canonical collection
	var states []*lrState
	index := map[string]int{}
	s0 := map[lrItem]bool{{aug, 0, endMarker}: true}
	closure(s0)
	states = append(states, &lrState{items: s0, trans: map[string]int{}})
	index[itemsKey(s0)] = 0
	for i := 0; i < len(states); i++ {
		st := states[i]
		bySym := map[string]map[lrItem]bool{}
		var order []string
		for it := range st.items {
			p := prods[it.prod]
			if it.dot < len(p.Body) {
				k := symKey(p.Body[it.dot])
				if bySym[k] == nil {
					bySym[k] = map[lrItem]bool{}
					order = append(order, k)
				}
				bySym[k][lrItem{it.prod, it.dot + 1, it.la}] = true
			}
		}
		sort.Strings(order)
		for _, k := range order {
			next := bySym[k]
			closure(next)
			key := itemsKey(next)
			j, ok := index[key]
			if !ok {
				j = len(states)
				index[key] = j
				states = append(states, &lrState{items: next, trans: map[string]int{}})
			}
			st.trans[k] = j
		}
	}
	// merge by core (LALR)
	coreIdx := map[string]int{}
	merged := []*lrState{}
	mapTo := make([]int, len(states))
	for i, st := range states {
		ck := coreKey(st.items)
		j, ok := coreIdx[ck]
		if !ok {
			j = len(merged)
			coreIdx[ck] = j
			merged = append(merged, &lrState{items: map[lrItem]bool{}, trans: map[string]int{}})
		}
		mapTo[i] = j
		for it := range st.items {
			merged[j].items[it] = true
		}
	}
	for i, st := range states {
		for k, t := range st.trans {
			merged[mapTo[i]].trans[k] = mapTo[t]
		}
	}
	tbl := &LALRTable{G: g, NStates: len(merged), Access: make([]string, len(merged))}
	// precedence lookup
	termLevel := map[string]int{}
	prodLevel := map[string]int{}
	for li, l := range g.Prec {
		for _, t := range l.Terms {
			termLevel[t] = li
		}
		for _, p := range l.Prods {
			prodLevel[p.key()] = li
		}
	}
	handleOfProd := func(pi int) (int, bool) {
		p := prods[pi]
		for _, s := range p.Body { // leftmost terminal
			if s.Term {
				l, ok := termLevel[s.Name]
				return l, ok
			}
		}
		l, ok := prodLevel[p.key()]
		return l, ok
	}
	for si, st := range merged {
		acts := map[string][]LAct{}
		for it := range st.items {
			p := prods[it.prod]
			if it.dot < len(p.Body) {
				s := p.Body[it.dot]
				if s.Term {
					a := LAct{"shift", st.trans[symKey(s)]}
					dup := false
					for _, x := range acts[s.Name] {
						if x == a {
							dup = true
						}
					}
					if !dup {
						acts[s.Name] = append(acts[s.Name], a)
					}
				}
				continue
			}
			var a LAct
			if it.prod == aug {
				a = LAct{"accept", 0}
			} else {
				a = LAct{"reduce", it.prod}
			}
			dup := false
			for _, x := range acts[it.la] {
				if x == a {
					dup = true
				}
			}
			if !dup {
				acts[it.la] = append(acts[it.la], a)
			}
		}
		row := map[string]LAct{}
		var terms []string
		for t := range acts {
			terms = append(terms, t)
		}
		sort.Strings(terms)
		for _, t := range terms {
			as := acts[t]
			if len(as) == 1 {
				row[t] = as[0]
				continue
			}
			// resolve: pairwise tournament under the documented rule
			sort.Slice(as, func(i, j int) bool {
				if as[i].Kind != as[j].Kind {
					return as[i].Kind < as[j].Kind
				}
				return as[i].Param < as[j].Param
			})
			winner := as[0]
			okAll := true
			desc := fmt.Sprintf("state %d on %q:", si, t)
			for _, a := range as {
				if a.Kind == "shift" {
					desc += fmt.Sprintf(" shift")
				} else {
					desc += fmt.Sprintf(" reduce(%s)", prods[a.Param])
				}
			}
			for _, c := range as[1:] {
				w, ok := resolvePair(winner, c, t, termLevel, handleOfProd, g.Prec)
				if !ok {
					okAll = false
					break
				}
				winner = w
			}
			if !okAll {
				tbl.Conflicts = append(tbl.Conflicts, desc)
				continue
			}
			tbl.Resolved = append(tbl.Resolved, desc)
			row[t] = winner
		}
		tbl.Action = append(tbl.Action, row)
		gt := map[string]int{}
		for k, t := range st.trans {
			if strings.HasPrefix(k, "n:") {
				gt[k[2:]] = t
			}
			tbl.Access[t] = k
		}
		tbl.Goto = append(tbl.Goto, gt)
	}
	return tbl
}

// resolvePair applies the documented precedence rule to two competing actions on terminal t.
func resolvePair(a, b LAct, t string, termLevel map[string]int, handleOfProd func(int) (int, bool), prec []GPrecLevel) (LAct, bool) {
	level := func(x LAct) (int, bool) {
		if x.Kind == "shift" {
			l, ok := termLevel[t]
			return l, ok
		}
		if x.Kind == "reduce" {
			return handleOfProd(x.Param)
		}
		return 0, false
	}
	la, oka := level(a)
	lb, okb := level(b)
	if !oka || !okb {
		return LAct{}, false
	}
	if la < lb { // earlier level binds tighter
		return a, true
	}
	if lb < la {
		return b, true
	}
	switch prec[la].Assoc {
	case "left":
		if a.Kind == "reduce" && b.Kind == "shift" {
			return a, true
		}
		if b.Kind == "reduce" && a.Kind == "shift" {
			return b, true
		}
	case "right":
		if a.Kind == "shift" && b.Kind == "reduce" {
			return a, true
		}
		if b.Kind == "shift" && a.Kind == "reduce" {
			return b, true
		}
	}
	return LAct{}, false
}

// run drives the shift-reduce algorithm with the reference table; returns accept?, reductions, error index.
func (t *LALRTable) run(tokens []string) (bool, []int, int) {
	stack := []int{0}
	var reds []int
	i := 0
	for steps := 0; steps < 100000; steps++ {
		a := endMarker
		if i < len(tokens) {
			a = tokens[i]
		}
		act, ok := t.Action[stack[len(stack)-1]][a]
		if !ok {
			return false, reds, i
		}
		switch act.Kind {
		case "shift":
			stack = append(stack, act.Param)
			i++
		case "reduce":
			p := t.G.Prods[act.Param]
			stack = stack[:len(stack)-len(p.Body)]
			stack = append(stack, t.Goto[stack[len(stack)-1]][p.Head])
			reds = append(reds, act.Param)
		case "accept":
			return true, reds, i
		}
	}
	return false, reds, i
}
