package main

// C06, bounded stand-in: the assumed contract of lookahead.BuildParsingTable ("an error iff an LALR(1) conflict is
// left unresolved by the declared precedences") is compared with the reference constructor of oracle_lalr.go
// (canonical LR(1) collection, equal cores merged, the documented precedence rule) on a corpus of specifications
// run through the REAL front end. Labelled bounded; never counted among the discharged obligations.

import (
	"encoding/json"
	"fmt"
	"os"
	"os/exec"
	"path/filepath"
	"sort"
	"strings"
	"time"
)

type lalrDump struct {
	File  string
	Error string
	Prods []struct {
		Head string
		Body []struct {
			Name string
			Term bool
		}
	}
	Prec []struct {
		Assoc string
		Terms []string
		Prods []struct {
			Head string
			Body []struct {
				Name string
				Term bool
			}
		}
	}
	TableErr string
	Panic    string
}

func lalrConformance(c *CheckCtx) error {
	t0 := time.Now()
	dir := filepath.Join(scratch(), "lalr")
	out := filepath.Join(dir, "out")
	os.MkdirAll(out, 0o755)
	src, err := os.ReadFile("/verif/harness/lalr_driver_test.go.txt")
	if err != nil {
		return err
	}
	tf := filepath.Join(dir, "zz_lalr_test.go")
	os.WriteFile(tf, src, 0o644)
	ov := filepath.Join(dir, "ov.json")
	os.WriteFile(ov, []byte(fmt.Sprintf(`{"Replace":{%q:%q}}`, filepath.Join(c.Repo, "internal/ebnf/parser/spec/zz_lalr_test.go"), tf)), 0o644)
	files, _ := filepath.Glob("/verif/harness/corpus_lalr/*.grammar")
	more, _ := filepath.Glob("/verif/harness/corpus/*.grammar")
	files = append(files, more...)
	files = append(files, filepath.Join(c.Repo, "internal/ebnf/fixture/test.success.grammar"))
	if c.Tier == "thorough" {
		files = append(files, filepath.Join(c.Repo, "internal/ebnf/fixture/pascal.grammar"))
	}
	sort.Strings(files)
	cmd := exec.Command("go", "test", "-overlay", ov, "-vet=off", "-count=1", "-timeout", "600s", "-run", "TestZZLALRDump", "./internal/ebnf/parser/spec")
	cmd.Dir = c.Repo
	cmd.Env = append(os.Environ(), "GOFLAGS=-mod=mod", "GOPROXY=off", "GOVC_LALR_OUT="+out, "GOVC_LALR_SPECS="+strings.Join(files, ":"))
	if b, err := cmd.CombinedOutput(); err != nil {
		return fmt.Errorf("LALR dump driver failed: %v\n%s", err, truncate(string(b), 3000))
	}
	br := BoundedRun{Name: "conformance of lookahead.BuildParsingTable (through Spec.LALRParsingTable) with the reference LALR(1)+precedence constructor: error iff an unresolved conflict",
		Bound: fmt.Sprintf("%d specifications: ambiguous expression grammars with no / full / partial precedence, dangling else (plain and resolved), non-associative operators, reduce/reduce, LALR-not-SLR, LR(1)-not-LALR, empty productions, production handles, EBNF operators, the lexer corpus and the repository fixtures", len(files))}
	for _, f := range files {
		base := strings.TrimSuffix(filepath.Base(f), filepath.Ext(f))
		data, err := os.ReadFile(filepath.Join(out, "lalr_"+base+".json"))
		if err != nil {
			return fmt.Errorf("no LALR dump for %s", f)
		}
		var d lalrDump
		if err := json.Unmarshal(data, &d); err != nil {
			return err
		}
		if d.Error != "" {
			c.Notes = append(c.Notes, fmt.Sprintf("LALR corpus %s: not an accepted specification (%s)", base, truncate(strings.ReplaceAll(d.Error, "\n", " "), 120)))
			continue
		}
		br.Cases++
		g := &Grammar{Start: "start"}
		for _, p := range d.Prods {
			gp := GProd{Head: p.Head}
			for _, s := range p.Body {
				gp.Body = append(gp.Body, GSym{s.Name, s.Term})
			}
			g.Prods = append(g.Prods, gp)
		}
		for _, l := range d.Prec {
			gl := GPrecLevel{Assoc: l.Assoc, Terms: l.Terms}
			for _, p := range l.Prods {
				gp := GProd{Head: p.Head}
				for _, s := range p.Body {
					gp.Body = append(gp.Body, GSym{s.Name, s.Term})
				}
				gl.Prods = append(gl.Prods, gp)
			}
			g.Prec = append(g.Prec, gl)
		}
		ref := buildLALR(g)
		refConflict := len(ref.Conflicts) > 0
		gotConflict := d.TableErr != ""
		if d.Panic != "" {
			br.Failures = append(br.Failures, base+": panic "+d.Panic)
			c.ExtraFindings = append(c.ExtraFindings, Finding{Obligation: fmt.Sprintf("lalr#conform[%s]", base), What: "Spec.LALRParsingTable panicked: " + d.Panic, HasInput: true,
				Replay: map[string]any{"failing_input": f, "confirmed_on_real_code": true}})
			continue
		}
		if refConflict == gotConflict {
			br.Distinct++
			continue
		}
		line := fmt.Sprintf("%s: emerge reports a conflict: %v; reference constructor: %v (%s)", base, gotConflict, refConflict, truncate(strings.Join(ref.Conflicts, "; "), 300))
		br.Failures = append(br.Failures, line)
		c.ExtraFindings = append(c.ExtraFindings, Finding{Obligation: fmt.Sprintf("lalr#conform[%s]", base),
			What:     "bounded conformance: the table builder and the reference LALR(1)+precedence constructor disagree on whether a conflict remains: " + line,
			HasInput: true,
			Replay:   map[string]any{"failing_input": f, "kind": "run spec.Parse and Spec.LALRParsingTable on this file", "emerge_error": truncate(d.TableErr, 600), "reference_conflicts": ref.Conflicts, "confirmed_on_real_code": true}})
	}
	br.Secs = round3(time.Since(t0).Seconds())
	c.Bounded = append(c.Bounded, br)
	if br.Cases == 0 {
		return fmt.Errorf("LALR conformance: no specification of the corpus was accepted")
	}
	return nil
}
