package main

// C04 — built-in EBNF parser accepts exactly the documented, disambiguated grammar.

import (
	"fmt"
	"go/ast"
	"go/parser"
	"go/token"
	"os"
	"sort"
	"strconv"
	"strings"

	"golang.org/x/tools/go/packages"
)

const parserPkg = "github.com/gardenbed/emerge/internal/ebnf/parser"

// ---------- documented grammar (docs/5-definitions.md) ----------

type ebnfNode struct {
	op   string // "t" terminal, "n" non-terminal, "seq", "alt", "opt", "star", "plus"
	name string
	kids []*ebnfNode
}

type docGrammar struct {
	Order []string
	Rules map[string]*ebnfNode
	Prec  []GPrecLevel
}

type ebnfLexer struct {
	toks []string
	p    int
}

func lexEBNFLine(s string) ([]string, error) {
	var out []string
	i := 0
	for i < len(s) {
		c := s[i]
		switch {
		case c == ' ' || c == '\t':
			i++
		case c == '"':
			j := i + 1
			for j < len(s) && s[j] != '"' {
				j++
			}
			if j >= len(s) {
				return nil, fmt.Errorf("unterminated string in %q", s)
			}
			out = append(out, s[i:j+1])
			i = j + 1
		case strings.HasPrefix(s[i:], "{{") || strings.HasPrefix(s[i:], "}}"):
			out = append(out, s[i:i+2])
			i += 2
		case strings.ContainsRune("=|()[]{}<>", rune(c)):
			out = append(out, string(c))
			i++
		case c == '@' || c == '_' || c >= 'a' && c <= 'z' || c >= 'A' && c <= 'Z':
			j := i + 1
			for j < len(s) && (s[j] == '_' || s[j] >= 'a' && s[j] <= 'z' || s[j] >= 'A' && s[j] <= 'Z' || s[j] >= '0' && s[j] <= '9') {
				j++
			}
			out = append(out, s[i:j])
			i = j
		default:
			return nil, fmt.Errorf("unexpected %q in %q", c, s)
		}
	}
	return out, nil
}

func (l *ebnfLexer) peek() string {
	if l.p < len(l.toks) {
		return l.toks[l.p]
	}
	return ""
}

func (l *ebnfLexer) alt() (*ebnfNode, error) {
	first, err := l.seq()
	if err != nil {
		return nil, err
	}
	kids := []*ebnfNode{first}
	for l.peek() == "|" {
		l.p++
		k, err := l.seq()
		if err != nil {
			return nil, err
		}
		kids = append(kids, k)
	}
	if len(kids) == 1 {
		return first, nil
	}
	return &ebnfNode{op: "alt", kids: kids}, nil
}

func (l *ebnfLexer) seq() (*ebnfNode, error) {
	var kids []*ebnfNode
	for {
		t := l.peek()
		if t == "" || t == "|" || t == ")" || t == "]" || t == "}" || t == "}}" || t == ">" {
			break
		}
		l.p++
		closeOf := map[string][2]string{"(": {")", "grp"}, "[": {"]", "opt"}, "{": {"}", "star"}, "{{": {"}}", "plus"}}
		if c, ok := closeOf[t]; ok {
			inner, err := l.alt()
			if err != nil {
				return nil, err
			}
			if l.peek() != c[0] {
				return nil, fmt.Errorf("expected %s", c[0])
			}
			l.p++
			if c[1] == "grp" {
				kids = append(kids, inner)
			} else {
				kids = append(kids, &ebnfNode{op: c[1], kids: []*ebnfNode{inner}})
			}
			continue
		}
		if strings.HasPrefix(t, `"`) {
			kids = append(kids, &ebnfNode{op: "t", name: t[1 : len(t)-1]})
		} else if t == strings.ToUpper(t) {
			kids = append(kids, &ebnfNode{op: "t", name: t})
		} else {
			kids = append(kids, &ebnfNode{op: "n", name: t})
		}
	}
	if len(kids) == 1 {
		return kids[0], nil
	}
	return &ebnfNode{op: "seq", kids: kids}, nil
}

// readDocGrammar extracts the EBNF grammar block and the precedence block of docs/5-definitions.md.
func readDocGrammar(repo string) (*docGrammar, error) {
	data, err := os.ReadFile(repo + "/docs/5-definitions.md")
	if err != nil {
		return nil, err
	}
	text := string(data)
	i := strings.Index(text, "## Extended Backus-Naur Form")
	if i < 0 {
		return nil, fmt.Errorf("EBNF section not found in docs/5-definitions.md")
	}
	text = text[i:]
	block := func(after string) ([]string, error) {
		j := strings.Index(text, after)
		if j < 0 {
			return nil, fmt.Errorf("section %q not found", after)
		}
		rest := text[j:]
		a := strings.Index(rest, "```")
		if a < 0 {
			return nil, fmt.Errorf("no code block after %q", after)
		}
		rest = rest[a+3:]
		b := strings.Index(rest, "```")
		if b < 0 {
			return nil, fmt.Errorf("unterminated code block after %q", after)
		}
		var lines []string
		for _, l := range strings.Split(rest[:b], "\n") {
			if strings.TrimSpace(l) != "" {
				lines = append(lines, l)
			}
		}
		return lines, nil
	}
	g := &docGrammar{Rules: map[string]*ebnfNode{}}
	lines, err := block("### Grammar")
	if err != nil {
		return nil, err
	}
	for _, l := range lines {
		toks, err := lexEBNFLine(l)
		if err != nil {
			return nil, err
		}
		if len(toks) < 2 || toks[1] != "=" {
			return nil, fmt.Errorf("bad grammar line %q", l)
		}
		lx := &ebnfLexer{toks: toks[2:]}
		n, err := lx.alt()
		if err != nil {
			return nil, fmt.Errorf("%q: %v", l, err)
		}
		if lx.p != len(lx.toks) {
			return nil, fmt.Errorf("%q: trailing tokens", l)
		}
		g.Order = append(g.Order, toks[0])
		g.Rules[toks[0]] = n
	}
	plines, err := block("### Precedence and Associativity")
	if err != nil {
		return nil, err
	}
	for _, l := range plines {
		toks, err := lexEBNFLine(l)
		if err != nil {
			return nil, err
		}
		if len(toks) == 0 || !strings.HasPrefix(toks[0], "@") {
			return nil, fmt.Errorf("bad precedence line %q", l)
		}
		lev := GPrecLevel{Assoc: toks[0][1:]}
		for k := 1; k < len(toks); k++ {
			t := toks[k]
			switch {
			case t == "<":
				// <head = body...>
				end := k
				for end < len(toks) && toks[end] != ">" {
					end++
				}
				if end >= len(toks) || k+2 >= end || toks[k+2] != "=" {
					return nil, fmt.Errorf("bad production handle in %q", l)
				}
				p := GProd{Head: toks[k+1]}
				for _, s := range toks[k+3 : end] {
					if strings.HasPrefix(s, `"`) {
						p.Body = append(p.Body, GSym{s[1 : len(s)-1], true})
					} else if s == strings.ToUpper(s) {
						p.Body = append(p.Body, GSym{s, true})
					} else {
						p.Body = append(p.Body, GSym{s, false})
					}
				}
				lev.Prods = append(lev.Prods, p)
				k = end
			case strings.HasPrefix(t, `"`):
				lev.Terms = append(lev.Terms, t[1:len(t)-1])
			default:
				lev.Terms = append(lev.Terms, t)
			}
		}
		g.Prec = append(g.Prec, lev)
	}
	return g, nil
}

// ---------- normal form used by cert[grammar-expansion] ----------
// A language expression is normalised to a set of sequences of atoms; atoms are terminals,
// non-terminals, Star(set) and Plus(set). Grouping and optionals are distributed.

type nfSet map[string][]string // canonical key -> sequence of atom strings

func nfSingle(atoms ...string) nfSet {
	return nfSet{strings.Join(atoms, " "): atoms}
}

func nfUnion(a, b nfSet) nfSet {
	out := nfSet{}
	for k, v := range a {
		out[k] = v
	}
	for k, v := range b {
		out[k] = v
	}
	return out
}

func nfConcat(a, b nfSet) nfSet {
	out := nfSet{}
	for _, x := range a {
		for _, y := range b {
			seq := append(append([]string{}, x...), y...)
			out[strings.Join(seq, " ")] = seq
		}
	}
	return out
}

func (s nfSet) canon() string {
	var ks []string
	for k := range s {
		if k == "" {
			k = "ε"
		}
		ks = append(ks, k)
	}
	sort.Strings(ks)
	return "{" + strings.Join(ks, " | ") + "}"
}

func nfOfDoc(n *ebnfNode) nfSet {
	switch n.op {
	case "t":
		return nfSingle(fmt.Sprintf("%q", n.name))
	case "n":
		return nfSingle(n.name)
	case "seq":
		out := nfSet{"": nil}
		for _, k := range n.kids {
			out = nfConcat(out, nfOfDoc(k))
		}
		return out
	case "alt":
		out := nfSet{}
		for _, k := range n.kids {
			out = nfUnion(out, nfOfDoc(k))
		}
		return out
	case "opt":
		return nfUnion(nfOfDoc(n.kids[0]), nfSet{"": nil})
	case "star":
		return nfSingle("Star" + nfOfDoc(n.kids[0]).canon())
	case "plus":
		return nfSingle("Plus" + nfOfDoc(n.kids[0]).canon())
	}
	return nfSet{}
}

// nfOfCode normalises the plain productions of the code, folding helper non-terminals
// (those the documentation does not name) back into the operators they expand.
func nfOfCode(prods []GProd, docNTs map[string]bool) (map[string]nfSet, []string) {
	byHead := map[string][]GProd{}
	for _, p := range prods {
		byHead[p.Head] = append(byHead[p.Head], p)
	}
	var problems []string
	memo := map[string]nfSet{}
	busy := map[string]bool{}
	var ofSeq func(body []GSym) nfSet
	var ofHelper func(x string) nfSet
	ofSeq = func(body []GSym) nfSet {
		out := nfSet{"": nil}
		for _, s := range body {
			switch {
			case s.Term:
				out = nfConcat(out, nfSingle(fmt.Sprintf("%q", s.Name)))
			case docNTs[s.Name]:
				out = nfConcat(out, nfSingle(s.Name))
			default:
				out = nfConcat(out, ofHelper(s.Name))
			}
		}
		return out
	}
	ofHelper = func(x string) nfSet {
		if r, ok := memo[x]; ok {
			return r
		}
		if busy[x] {
			problems = append(problems, "helper non-terminal "+x+" is recursive in an unsupported way")
			return nfSet{}
		}
		busy[x] = true
		defer func() { busy[x] = false }()
		ps := byHead[x]
		if len(ps) == 0 {
			problems = append(problems, "non-terminal "+x+" has no production")
			return nfSet{}
		}
		var rec, base [][]GSym
		hasEps := false
		for _, p := range ps {
			if len(p.Body) > 0 && !p.Body[0].Term && p.Body[0].Name == x {
				rec = append(rec, p.Body[1:])
			} else if len(p.Body) == 0 {
				hasEps = true
			} else {
				base = append(base, p.Body)
			}
		}
		var res nfSet
		if len(rec) > 0 {
			inner := nfSet{}
			for _, r := range rec {
				inner = nfUnion(inner, ofSeq(r))
			}
			switch {
			case hasEps && len(base) == 0: // X -> X a | eps
				res = nfSingle("Star" + inner.canon())
			case !hasEps: // X -> X a | a
				b := nfSet{}
				for _, r := range base {
					b = nfUnion(b, ofSeq(r))
				}
				if b.canon() != inner.canon() {
					problems = append(problems, "helper "+x+": left-recursive productions do not match the {{ }} schema")
				}
				res = nfSingle("Plus" + inner.canon())
			default:
				problems = append(problems, "helper "+x+": unsupported recursion schema")
				res = nfSet{}
			}
		} else {
			res = nfSet{}
			for _, b := range base {
				res = nfUnion(res, ofSeq(b))
			}
			if hasEps {
				res = nfUnion(res, nfSet{"": nil})
			}
		}
		memo[x] = res
		return res
	}
	out := map[string]nfSet{}
	for nt := range docNTs {
		res := nfSet{}
		for _, p := range byHead[nt] {
			res = nfUnion(res, ofSeq(p.Body))
		}
		out[nt] = res
	}
	return out, problems
}

// ---------- extraction of the grammar literals from Go source ----------

func stringLit(e ast.Expr) (string, bool) {
	if bl, ok := ast.Unparen(e).(*ast.BasicLit); ok && bl.Kind == token.STRING {
		s, err := strconv.Unquote(bl.Value)
		return s, err == nil
	}
	return "", false
}

func selName(e ast.Expr) string {
	switch x := e.(type) {
	case *ast.SelectorExpr:
		return selName(x.X) + "." + x.Sel.Name
	case *ast.Ident:
		return x.Name
	case *ast.IndexExpr:
		return selName(x.X)
	}
	return ""
}

func extractSymbol(e ast.Expr) (GSym, error) {
	c, ok := e.(*ast.CallExpr)
	if !ok || len(c.Args) != 1 {
		return GSym{}, fmt.Errorf("symbol is not a conversion")
	}
	s, ok := stringLit(c.Args[0])
	if !ok {
		return GSym{}, fmt.Errorf("symbol name is not a string literal")
	}
	switch selName(c.Fun) {
	case "grammar.Terminal":
		return GSym{s, true}, nil
	case "grammar.NonTerminal":
		return GSym{s, false}, nil
	}
	return GSym{}, fmt.Errorf("unknown symbol constructor %s", selName(c.Fun))
}

func extractProduction(e ast.Expr) (GProd, error) {
	if u, ok := e.(*ast.UnaryExpr); ok && u.Op == token.AND {
		e = u.X
	}
	cl, ok := e.(*ast.CompositeLit)
	if !ok {
		return GProd{}, fmt.Errorf("production is not a composite literal")
	}
	var p GProd
	for _, el := range cl.Elts {
		kv, ok := el.(*ast.KeyValueExpr)
		if !ok {
			return p, fmt.Errorf("production literal without keys")
		}
		switch kv.Key.(*ast.Ident).Name {
		case "Head":
			s, ok := stringLit(kv.Value)
			if !ok {
				return p, fmt.Errorf("production head is not a string literal")
			}
			p.Head = s
		case "Body":
			if selName(kv.Value) == "grammar.E" {
				continue
			}
			bl, ok := kv.Value.(*ast.CompositeLit)
			if !ok {
				return p, fmt.Errorf("production body is not a literal")
			}
			for _, se := range bl.Elts {
				s, err := extractSymbol(se)
				if err != nil {
					return p, err
				}
				p.Body = append(p.Body, s)
			}
		}
	}
	return p, nil
}

type codeGrammar struct {
	Prods []GProd
	Prec  []GPrecLevel
}

// extractCodeGrammar reads the `productions` and `precedences` literals of a parsed Go file.
func extractCodeGrammar(f *ast.File) (*codeGrammar, error) {
	cg := &codeGrammar{}
	var err error
	found := 0
	ast.Inspect(f, func(n ast.Node) bool {
		vs, ok := n.(*ast.ValueSpec)
		if !ok || len(vs.Names) != 1 || len(vs.Values) != 1 {
			return true
		}
		switch vs.Names[0].Name {
		case "productions":
			cl, ok := vs.Values[0].(*ast.CompositeLit)
			if !ok {
				err = fmt.Errorf("productions is not a composite literal")
				return false
			}
			for _, el := range cl.Elts {
				p, e := extractProduction(el)
				if e != nil {
					err = e
					return false
				}
				cg.Prods = append(cg.Prods, p)
			}
			found++
		case "precedences":
			cl, ok := vs.Values[0].(*ast.CompositeLit)
			if !ok {
				err = fmt.Errorf("precedences is not a composite literal")
				return false
			}
			for _, el := range cl.Elts {
				ll, ok := el.(*ast.CompositeLit)
				if !ok {
					err = fmt.Errorf("precedence level is not a literal")
					return false
				}
				var lev GPrecLevel
				for _, fe := range ll.Elts {
					kv := fe.(*ast.KeyValueExpr)
					switch kv.Key.(*ast.Ident).Name {
					case "Associativity":
						lev.Assoc = strings.ToLower(strings.TrimPrefix(selName(kv.Value), "lr."))
					case "Handles":
						call, ok := kv.Value.(*ast.CallExpr)
						if !ok {
							err = fmt.Errorf("handles is not a call")
							return false
						}
						for _, a := range call.Args {
							hc, ok := a.(*ast.CallExpr)
							if !ok || len(hc.Args) != 1 {
								err = fmt.Errorf("handle is not a call")
								return false
							}
							switch selName(hc.Fun) {
							case "lr.PrecedenceHandleForTerminal":
								s, _ := stringLit(hc.Args[0])
								lev.Terms = append(lev.Terms, s)
							case "lr.PrecedenceHandleForProduction":
								p, e := extractProduction(hc.Args[0])
								if e != nil {
									err = e
									return false
								}
								lev.Prods = append(lev.Prods, p)
							}
						}
					}
				}
				cg.Prec = append(cg.Prec, lev)
			}
			found++
		}
		return true
	})
	if err != nil {
		return nil, err
	}
	if found < 2 {
		return nil, fmt.Errorf("productions/precedences literals not found")
	}
	return cg, nil
}

func (cg *codeGrammar) canon() string {
	var b strings.Builder
	for i, p := range cg.Prods {
		fmt.Fprintf(&b, "%d: %s\n", i, p)
	}
	b.WriteString(precCanon(cg.Prec))
	return b.String()
}

func precCanon(levels []GPrecLevel) string {
	var b strings.Builder
	for i, l := range levels {
		ts := append([]string{}, l.Terms...)
		sort.Strings(ts)
		var ps []string
		for _, p := range l.Prods {
			ps = append(ps, p.String())
		}
		sort.Strings(ps)
		fmt.Fprintf(&b, "level %d @%s terms=%q prods=%q\n", i, l.Assoc, ts, ps)
	}
	return b.String()
}

// ---------- certificate: alignment of code states with reference states ----------

type LALRCert struct {
	Pi      map[int]int // code state -> reference state
	Inv     map[int]int
	Order   []int
	Problems []string
}

func alignLALR(p *packages.Package, tbl *LALRTable, terms, nts []string) *LALRCert {
	cert := &LALRCert{Pi: map[int]int{0: 0}, Inv: map[int]int{0: 0}, Order: []int{0}}
	actFD, gotoFD := findFuncDecl(p, "ACTION"), findFuncDecl(p, "GOTO")
	if actFD == nil || gotoFD == nil {
		cert.Problems = append(cert.Problems, "ACTION/GOTO not found")
		return cert
	}
	for qi := 0; qi < len(cert.Order); qi++ {
		s := cert.Order[qi]
		q := cert.Pi[s]
		visit := func(s2, q2 int, what string) {
			if prev, ok := cert.Pi[s2]; ok {
				if prev != q2 {
					cert.Problems = append(cert.Problems, fmt.Sprintf("code state %d reached on %s maps to reference state %d and %d", s2, what, prev, q2))
				}
				return
			}
			if other, ok := cert.Inv[q2]; ok && other != s2 {
				cert.Problems = append(cert.Problems, fmt.Sprintf("reference state %d corresponds to code states %d and %d", q2, other, s2))
			}
			cert.Pi[s2] = q2
			cert.Inv[q2] = s2
			cert.Order = append(cert.Order, s2)
		}
		for _, a := range terms {
			v, err := callFunc(actFD, p.TypesInfo, cval{k: 'i', i: int64(s)}, cval{k: 's', s: a})
			if err != nil || len(v) != 3 {
				cert.Problems = append(cert.Problems, "ACTION is not interpretable")
				return cert
			}
			ra, rok := tbl.Action[q][a]
			if v[0].i == 1 && rok && ra.Kind == "shift" { // lr.SHIFT
				visit(int(v[1].i), ra.Param, fmt.Sprintf("%q from state %d", a, s))
			}
		}
		for _, A := range nts {
			v, err := callFunc(gotoFD, p.TypesInfo, cval{k: 'i', i: int64(s)}, cval{k: 's', s: A})
			if err != nil || len(v) != 1 {
				cert.Problems = append(cert.Problems, "GOTO is not interpretable")
				return cert
			}
			if rt, ok := tbl.Goto[q][A]; ok && v[0].i >= 0 {
				visit(int(v[0].i), rt, fmt.Sprintf("%s from state %d", A, s))
			}
		}
	}
	return cert
}

func prepareLALROracle(c *CheckCtx) error {
	doc, err := readDocGrammar(c.Repo)
	if err != nil {
		return err
	}
	p, err := loadOne(c.Repo, "./internal/ebnf/parser")
	if err != nil {
		return err
	}
	var tableFile *ast.File
	for _, f := range p.Syntax {
		if strings.HasSuffix(p.Fset.Position(f.Pos()).Filename, "parsing_table.go") {
			tableFile = f
		}
	}
	if tableFile == nil {
		return fmt.Errorf("parsing_table.go not found")
	}
	var certProblems []string
	cg, err := extractCodeGrammar(tableFile)
	if err != nil {
		certProblems = append(certProblems, "cert[grammar-literals]: "+err.Error())
		cg = &codeGrammar{}
	}
	// cert[grammar-expansion]: the productions literal is the documented grammar, expanded
	docNTs := map[string]bool{}
	for _, n := range doc.Order {
		docNTs[n] = true
	}
	codeNF, probs := nfOfCode(cg.Prods, docNTs)
	for _, pr := range probs {
		certProblems = append(certProblems, "cert[grammar-expansion]: "+pr)
	}
	for _, n := range doc.Order {
		d := nfOfDoc(doc.Rules[n]).canon()
		k := codeNF[n].canon()
		if d != k {
			certProblems = append(certProblems, fmt.Sprintf("cert[grammar-expansion]: rule %s: documented %s, code %s", n, d, k))
		}
	}
	// every code production head must be a documented rule or a helper folded above; start symbol
	start := ""
	if len(doc.Order) > 0 {
		start = doc.Order[0]
	}
	// cert[precedence-list]
	if precCanon(doc.Prec) != precCanon(cg.Prec) {
		certProblems = append(certProblems, "cert[precedence-list]: documented\n"+precCanon(doc.Prec)+"code\n"+precCanon(cg.Prec))
	}
	// cert[generator-copies]: the generator's own variables and the source text it writes
	gp, gerr := loadOne(c.Repo, "./internal/ebnf/parser/generate")
	if gerr != nil {
		certProblems = append(certProblems, "cert[generator-copies]: cannot load generator: "+gerr.Error())
	} else {
		for _, f := range gp.Syntax {
			g2, err := extractCodeGrammar(f)
			if err != nil {
				continue
			}
			if g2.canon() != cg.canon() {
				certProblems = append(certProblems, "cert[generator-copies]: the generator's grammar variables differ from parsing_table.go")
			}
			// the emitted source text: every long string literal that parses as Go with these literals
			ast.Inspect(f, func(n ast.Node) bool {
				bl, ok := n.(*ast.BasicLit)
				if !ok || bl.Kind != token.STRING || len(bl.Value) < 2000 {
					return true
				}
				txt, err := strconv.Unquote(bl.Value)
				if err != nil || !strings.Contains(txt, "productions = ") {
					return true
				}
				c.Data["genTemplateSeen"] = true
				if !strings.Contains(txt, "package parser") {
					return true
				}
				src := txt
				if i := strings.LastIndex(src, ")\n"); i >= 0 {
					src = src[:i+2]
				}
				pf, perr := parseGoSource(src)
				if perr != nil {
					certProblems = append(certProblems, "cert[generator-copies]: emitted header does not parse: "+perr.Error())
					return true
				}
				g3, err := extractCodeGrammar(pf)
				if err != nil {
					certProblems = append(certProblems, "cert[generator-copies]: emitted header: "+err.Error())
					return true
				}
				if g3.canon() != cg.canon() {
					certProblems = append(certProblems, "cert[generator-copies]: the grammar in the source text the generator emits differs from parsing_table.go")
				}
				c.Data["genTemplateChecked"] = true
				return true
			})
		}
	}
	if err := writeValueDiscipline(cg); err != nil {
		return err
	}
	g := &Grammar{Prods: cg.Prods, Start: start, Prec: doc.Prec}
	tbl := buildLALR(g)
	for _, cf := range tbl.Conflicts {
		certProblems = append(certProblems, "reference construction: conflict not resolved by the documented precedence list: "+cf)
	}
	termSet := map[string]bool{endMarker: true}
	ntSet := map[string]bool{}
	for _, pr := range cg.Prods {
		ntSet[pr.Head] = true
		for _, s := range pr.Body {
			if s.Term {
				termSet[s.Name] = true
			}
		}
	}
	var terms, nts []string
	for t := range termSet {
		terms = append(terms, t)
	}
	for n := range ntSet {
		nts = append(nts, n)
	}
	sort.Strings(terms)
	sort.Strings(nts)
	cert := alignLALR(p, tbl, terms, nts)
	for _, pr := range cert.Problems {
		certProblems = append(certProblems, "cert[pi]: "+pr)
	}
	if len(cert.Pi) != tbl.NStates {
		certProblems = append(certProblems, fmt.Sprintf("cert[pi-bijection]: %d code states reachable, reference has %d states", len(cert.Pi), tbl.NStates))
	}
	c.Data["lalrTable"] = tbl
	c.Data["lalrCert"] = cert
	c.Data["lalrProblems"] = certProblems
	c.Data["lalrTerms"] = terms
	c.Data["lalrResolved"] = len(tbl.Resolved)
	// emit the reference table in code numbering as contract-language spec functions
	var b strings.Builder
	b.WriteString("# generated by govc: reference LALR(1)+precedence table of the documented EBNF grammar, in the state numbering of the code\n")
	b.WriteString("package " + parserPkg + "\n")
	b.WriteString("import lr \"github.com/moorara/algo/parser/lr\"\nimport grammar \"github.com/moorara/algo/grammar\"\n")
	lit := func(t string) string {
		if t == endMarker {
			return "grammar.Endmarker"
		}
		return fmt.Sprintf("%q", t)
	}
	maxState := -1
	for s := range cert.Pi {
		if s > maxState {
			maxState = s
		}
	}
	var typ, par, gt strings.Builder
	typ.WriteString("def func refActType(s int, a string) int = ")
	par.WriteString("def func refActParam(s int, a string) int = ")
	gt.WriteString("def func refGoto(s int, A string) int = ")
	states := append([]int{}, cert.Order...)
	sort.Ints(states)
	for _, s := range states {
		q := cert.Pi[s]
		row := tbl.Action[q]
		var ts []string
		for t := range row {
			ts = append(ts, t)
		}
		sort.Strings(ts)
		fmt.Fprintf(&typ, "s == %d ? (", s)
		fmt.Fprintf(&par, "s == %d ? (", s)
		for _, t := range ts {
			a := row[t]
			switch a.Kind {
			case "shift":
				tgt, ok := cert.Inv[a.Param]
				if !ok {
					tgt = -2
				}
				fmt.Fprintf(&typ, "a == %s ? lr.SHIFT : ", lit(t))
				fmt.Fprintf(&par, "a == %s ? %d : ", lit(t), tgt)
			case "reduce":
				fmt.Fprintf(&typ, "a == %s ? lr.REDUCE : ", lit(t))
				fmt.Fprintf(&par, "a == %s ? %d : ", lit(t), a.Param)
			case "accept":
				fmt.Fprintf(&typ, "a == %s ? lr.ACCEPT : ", lit(t))
				fmt.Fprintf(&par, "a == %s ? 0 : ", lit(t))
			}
		}
		typ.WriteString("lr.ERROR) : ")
		par.WriteString("0 - 1) : ")
		grow := tbl.Goto[q]
		var ns []string
		for n := range grow {
			ns = append(ns, n)
		}
		sort.Strings(ns)
		fmt.Fprintf(&gt, "s == %d ? (", s)
		for _, n := range ns {
			tgt, ok := cert.Inv[grow[n]]
			if !ok {
				tgt = -2
			}
			fmt.Fprintf(&gt, "A == %q ? %d : ", n, tgt)
		}
		gt.WriteString("0 - 1) : ")
	}
	typ.WriteString("lr.ERROR\n")
	par.WriteString("0 - 1\n")
	gt.WriteString("0 - 1\n")
	b.WriteString(typ.String() + par.String() + gt.String())
	fmt.Fprintf(&b, "def func refStates() int = %d\n", tbl.NStates)
	fmt.Fprintf(&b, "def func refMaxState() int = %d\n", maxState)
	// body lengths and heads of the productions (for the driver's contract)
	b.WriteString("def func prodLen(p int) int = ")
	for i, pr := range cg.Prods {
		fmt.Fprintf(&b, "p == %d ? %d : ", i, len(pr.Body))
	}
	b.WriteString("0\n")
	b.WriteString("def func prodHead(p int) string = ")
	for i, pr := range cg.Prods {
		fmt.Fprintf(&b, "p == %d ? %q : ", i, pr.Head)
	}
	b.WriteString("\"\"\n")
	fmt.Fprintf(&b, "def func prodCount() int = %d\n", len(cg.Prods))
	// distS: length of the shortest path from state 0 (certificate for "the stack is deep enough to pop a body")
	dist := map[int]int{0: 0}
	queue := []int{0}
	for qi := 0; qi < len(queue); qi++ {
		q := queue[qi]
		var nexts []int
		for _, a := range tbl.Action[q] {
			if a.Kind == "shift" {
				nexts = append(nexts, a.Param)
			}
		}
		for _, t := range tbl.Goto[q] {
			nexts = append(nexts, t)
		}
		sort.Ints(nexts)
		for _, t := range nexts {
			if _, ok := dist[t]; !ok {
				dist[t] = dist[q] + 1
				queue = append(queue, t)
			}
		}
	}
	b.WriteString("def func distS(s int) int = ")
	for _, s := range states {
		fmt.Fprintf(&b, "s == %d ? %d : ", s, dist[cert.Pi[s]])
	}
	b.WriteString("0\n")
	return os.WriteFile("/verif/specs/gen/ebnf_lalr.gvc", []byte(b.String()), 0o644)
}

func c04Extra(c *CheckCtx) error {
	probs, _ := c.Data["lalrProblems"].([]string)
	for i, p := range probs {
		name := "cert"
		if j := strings.Index(p, ":"); j > 0 {
			name = p[:j]
		}
		c.ExtraFindings = append(c.ExtraFindings, Finding{Obligation: fmt.Sprintf("%s.%s#%d", parserPkg, name, i), What: p,
			Replay: map[string]any{"kind": "certificate", "detail": p}})
	}
	if c.Data["genTemplateChecked"] != true {
		c.ExtraFindings = append(c.ExtraFindings, Finding{Obligation: parserPkg + ".cert[generator-copies]#template", What: "the generator's emitted grammar text was not found / could not be compared"})
	}
	c.Notes = append(c.Notes, fmt.Sprintf("reference construction: %d LALR(1) states, %d conflicts resolved by the documented precedence list, certificates checked: grammar-expansion, precedence-list, generator-copies, pi-bijection",
		c.Data["lalrTable"].(*LALRTable).NStates, c.Data["lalrResolved"]))
	return nil
}

func init() {
	register(&PropSpec{
		ID: "C04", Level: "proof",
		Pkgs:    []string{"./internal/ebnf/parser"},
		Prepare: prepareAll,
		Extra:   c04Extra,
		Select: []Selector{
			{Units: `ebnf/parser\.ACTION$`, Kinds: `^(post|vacuity)$`},
			{Units: `ebnf/parser\.GOTO$`, Kinds: `^(post|vacuity)$`},
			{Units: `ebnf/parser\.Parser\.Parse$`, Kinds: `^(post|inv-init|inv-pres|step|pre|term|vacuity)$`},
			{Units: `ebnf/parser\.Parser\.nextToken$`, Kinds: `^(post|vacuity)$`},
		},
		Replay:    replayScalar,
		Lemmas:    []string{"L-LR: for a grammar and its conflict-free LALR(1) table the shift-reduce driver accepts exactly L(G) (Aho et al. §4.5-4.7)"},
		Trusted:   []string{"oracle: reference LALR(1)+precedence constructor (/verif/govc/oracle_lalr.go) over the grammar and precedence list parsed from docs/5-definitions.md; conflict rule from docs/1-documentation.md"},
	})
}

func parseGoSource(src string) (*ast.File, error) {
	fset := token.NewFileSet()
	return parser.ParseFile(fset, "emitted.go", src, 0)
}
