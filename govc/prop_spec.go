package main

// Properties decided on the specification parser (internal/ebnf/parser/spec): C12, C07.

const specPkgRe = `ebnf/parser/spec\.`

func init() {
	register(&PropSpec{
		ID: "C12", Level: "proof",
		Pkgs:    []string{"./internal/ebnf/parser/spec", "./internal/ebnf/parser"},
		Prepare: prepareAll,
		Select: []Selector{
			// directive and handle actions 12-19, the rule actions 20/21 that build the productions a rule handle stands for,
			// and the frame clause "no other action touches the recorded levels"
			{Units: specPkgRe + `Parse\$1$`, Names: `#post\[(c1[2-9]-|c2[01]-|directive-appends-one|others-keep-levels)`},
			{Units: specPkgRe + `Parse\$1$`, Names: `#post\[(typed|inv)\]\{i=(1[2-9]|2[01])\}`},
			{Units: specPkgRe + `Parse\$1$`, Names: `#(inv-init|inv-pres|inv-frame)\[[678],`},
			{Units: specPkgRe + `Parse\$1$`, Kinds: `^(vacuity|frame)$`},
			{Units: specPkgRe + `SymbolTable\.(AddPrecedence|Precedences|AddProduction)$`},
			{Units: specPkgRe + `NewSymbolTable$`, Kinds: `^(post|vacuity)$`},
			{Units: specPkgRe + `Parse$`, Kinds: `^(refine|pre|vacuity)$`},
			{Units: `ebnf/parser\.Parser\.ParseAndEvaluate(\$\d+)?$`, Kinds: `^(post|pre|provides|refine|inv-init|inv-pres|vacuity)$`},
		},
		Lemmas: []string{"L-STACK: in an LR parse the semantic values handed to the action of production A -> X1..Xn are the values produced for X1..Xn, in order (the stack spells a viable prefix; Aho et al. §4.5-4.6). Every action is proved to return a value of its head's type given body values of theirs; the per-symbol type table is generated from the productions literal (specs/gen/ebnf_values.gvc)"},
		Trusted: []string{
			"assumed contracts: lr.NewPrecedenceHandles (the handle set is a function of the handles passed), symboltable Get/Put/All (finite map; dom only grows), sync.Mutex (no sequential effect)",
			"A-ALIAS: append on a slice taken from a previous action's value extends that value (single consumer: each semantic value is consumed by exactly one reduction)",
			"A-TABLES, A-SOURCE (see C18)"},
	})
	register(&PropSpec{
		ID: "C07", Level: "proof",
		Pkgs:    []string{"./internal/ebnf/parser/spec", "./internal/ebnf/parser", "./internal/ebnf/lexer"},
		Prepare: prepareAll,
		Select: []Selector{
			{Units: specPkgRe + `Parse\$1$`, Names: `#post\[(c9-|c10-|c11-|c33-|c34-|c0-|errs-kept)`},
			{Units: specPkgRe + `Parse\$1$`, Names: `#post\[(typed|inv)\]\{i=(0|9|10|11|33|34)\}`},
			{Units: specPkgRe + `Parse\$1$`, Kinds: `^(vacuity|frame)$`},
			{Units: specPkgRe + `SymbolTable\.(AddStringTerminal|AddTokenTerminal|AddStringTokenDef|AddRegexTokenDef|Verify|ensureSingleDefs(\$1)?|ensureDistinctDefs(\$1)?|ensureStartSymbol(\$1)?|Definitions(\$1)?|Terminals|NonTerminals)$`},
			{Units: specPkgRe + `NewSymbolTable$`, Kinds: `^(post|vacuity)$`},
			{Units: specPkgRe + `Parse$`},
			// a named token carries its declared string / pattern: the text between the quotes or slashes of the lexeme (shared with C05)
			{Units: `ebnf/lexer\.Lexer\.evalDFA$`},
		},
		Lemmas: []string{"L-STACK (see C12)"},
		Trusted: []string{
			"assumed contracts (A-DEP): grammar.CFG.Verify / lr.PrecedenceLevels.Verify (nil or a non-empty MultiError; WHAT they check - start symbol present, every non-terminal has a production, symbols declared, no handle in two levels - is read off their source and not re-proved), errors.Append / ErrorOrNil (error counter), symboltable (finite map), sort.Quick (permutation), generic.Transform, fmt.Errorf",
			"A-EQ: grammar.EqTerminal/EqNonTerminal are Go's == (dependency source)",
			"not decided: 'two terminals with the same value' and 'no start rule' are checked by ensureDistinctDefs / ensureStartSymbol, for which only safety, frame and 'nil or non-empty error' are proved (their iff-characterisation over a Go map / AnyMatch is not), and the diagnostics' wording"},
	})
}

func init() {
	register(&PropSpec{
		ID: "C11", Level: "other",
		Pkgs:    []string{"./internal/ebnf/parser/ast", "./internal/ebnf/parser"},
		Prepare: prepareAll,
		Select: []Selector{
			{Units: `ebnf/parser/ast\.Parse(\$1)?$`},
			{Units: `ebnf/parser/ast\.(\w+\.(Equal|Children|Pos)|equalPositions)$`},
			{Units: `ebnf/parser\.Parser\.ParseAndBuildAST(\$\d+)?$`},
			{Units: `ebnf/parser\.Parser\.ParseAndEvaluate(\$\d+)?$`, Kinds: `^(post|pre|provides|refine|inv-init|inv-pres|vacuity)$`},
		},
		Explain: "Proved for all inputs: (generic tree) ParseAndBuildAST pushes one leaf per shifted token carrying exactly its terminal, lexeme and position, and one internal node per reduction whose production is the reduced one and whose children are the popped nodes in the order of the production's body (loop invariant of the prepend loop; the value stack mirrors the parse stack through the callback invariant; the order of callbacks is C18); (typed tree) each of the 35 semantic actions of ebnf/parser/ast.Parse builds exactly the node the production denotes: operands of concatenation and alternation in source order with flattening only of an operand that is itself the same operator, a trailing '|' adds one empty alternative last, groups are transparent, [ ] { } {{ }} wrap their operand with the bracket's position, rules / handles / directives / token declarations carry the names, operands, associativity, expansion of predefined names and positions written, declarations are appended in order, a grammar without declarations gets an empty list (fix c8839de); every type assertion and index in these actions is safe under the LR value discipline. NOT decided: 'printing the typed tree and parsing it again yields an equal tree' (the repository has no EBNF printer to put under contract) and 'the grammar obtained from the typed tree is the one emerge derives directly' (Lemma L-EXP applied to both action sets; stated, not proved); (node methods, the judge of 'an equal tree') Children of the 9 interior node types lists exactly the operands in the order written; Pos is the recorded position; Equal of each of the 15 node types holds iff the other node has the same type, the same written fields, the same position and - one inductive step of structural equality - operands that are pairwise Equal in order (eqv: what the operand's own Equal answers, A-DISPATCH), with equalPositions = same file, offset, line, column or both absent; Traverse is not under contract.",
		Lemmas:  []string{"L-STACK (see C12)", "L-LR (see C18): the leaves left to right are the shifted tokens in source order and every interior node applies one production"},
		Trusted: []string{"assumed contracts: list.Stack (LIFO), fmt.Sprintf (deterministic), lexer.Position.Equal (field-wise), A-TABLES, A-SOURCE", "A-DISPATCH: a call of Equal through an interface runs the Equal of the dynamic type (each of which is under contract); precondition of the node methods: a tree holds no typed-nil node and no nil operand"},
	})
}

func init() {
	register(&PropSpec{
		ID: "C01", Level: "proof",
		Pkgs:    []string{"./internal/ebnf/parser/spec", "./internal/ebnf/parser"},
		Prepare: prepareAll,
		Select: []Selector{
			{Units: specPkgRe + `Parse\$1$`, Names: `#post\[(c2[0-9]-|c3[01]-|c24-27-)`},
			{Units: specPkgRe + `Parse\$1$`, Names: `#post\[(typed|inv)\]\{i=(2[0-9]|3[0-2])\}`},
			{Units: specPkgRe + `Parse\$1$`, Names: `#(inv-init|inv-pres|inv-frame)\[[0-6],`},
			{Units: specPkgRe + `Parse\$1$`, Names: `#callsite\[\d+:AddProduction`},
			{Units: specPkgRe + `Parse\$1$`, Kinds: `^(vacuity|frame)$`},
			{Units: specPkgRe + `(Strings\.Contains|eqStrings|hashStrings)$`},
			{Units: specPkgRe + `SymbolTable\.(GetOpt|GetGroup|GetStar|GetPlus|mapStringToNoneTerminal|AddProduction|AddNonTerminal)$`},
			{Units: specPkgRe + `NewSymbolTable$`, Kinds: `^(post|vacuity)$`},
		},
		Lemmas: []string{"L-EXP: if every synthesised non-terminal g is bound to one (operator, set of alternatives) pair, its productions are exactly that operator's schema (group: g->α; opt: g->α|ε; star: g->gα|ε; plus: g->gα|α), synthesised names never coincide with user rules, and the value of every sub-expression is the set algebra of its children (singleton, union, union with ε, pairwise concatenation), then every user rule generates exactly the language its EBNF text denotes (induction on expressions inside a least-fixed-point argument over user non-terminals). The obligations prove the premises per reduce action.",
			"L-STACK (see C12)"},
		Trusted: []string{"assumed contracts: grammar.String.Equal/Concat/Prepend (sequence algebra strEq/strCat/strPre), symboltable Get/Put (dom only grows, contains the key put), fmt.Sprintf (non-empty for a format starting with a literal)",
			"the memo table of synthesised names (strings table) is keyed by eqStrings/hashStrings: that Get may miss an equal key only loses sharing (a second helper with the same schema), which L-EXP does not need; hashStrings is proved to hash the alternatives in sorted order and to only reorder the caller's list (A-SORT: sort.Quick sorts; hasher modelled as a fold)"},
	})
}

func init() {
	register(&PropSpec{
		ID: "C03", Level: "other",
		Pkgs:    []string{"./internal/ebnf/parser/spec"},
		Prepare: prepareAll,
		Select: []Selector{
			{Units: specPkgRe + `stringToDFA$`},
			// a pattern's automaton is what the pipeline builds from the parsed pattern, nothing taken away afterwards
			{Units: specPkgRe + `regexToDFA$`},
			{Units: specPkgRe + `Spec\.DFA(\$\d+)?$`},
			{Units: specPkgRe + `SymbolTable\.Definitions(\$1)?$`, Kinds: `^(post|inv-init|inv-pres|refine|vacuity)$`},
		},
		Explain: "Proved for all definition lists: (literals) stringToDFA builds exactly the chain 0 -c0-> 1 ... -> n over the characters of the value, one edge per character (UTF-8 sequence, not per byte), accepting in n only; (every definition compiled) DFA compiles each definition, an invalid pattern makes DFA fail, nothing is swallowed; (state map) every definition listed for an accepting state accepts there according to CombineDFA's state map; (winner, one obligation set per iteration over the accepting states, visited in ascending order) a state with one definition goes to that terminal; with several, if no conflict is recorded there is a string-literal definition that is the only literal among them and the state goes to its terminal; a conflict is recorded only if there are several definitions and either none or at least two of them are literals; no other terminal's state list changes; success returns non-nil results. Known finding: backslash escapes in literals are not resolved. NOT decided: that the combined automaton recognises exactly the union of the languages and that its state map is right - that is the dependency's CombineDFA (assumed; no bounded conformance run built), and the languages of patterns (C02).",
		Trusted: []string{"assumed contracts: automata.NewDFA/Add (chain model), NewStates, CombineDFA (shape only), generic.SelectMatch (order- and multiplicity-preserving selection), slices.Sort, errors.Append; regexToDFA opaque (fails exactly on invalid patterns; effect-free)",
			"L-CALLBACK: the predicate SelectMatch applies is the closure DFA$1, whose contract (result == !def.IsRegex) is proved",
			"A-UTF8: rune value/size at a byte offset uninterpreted except on ASCII"},
	})
}
