package main

// Properties decided on the specification parser (internal/ebnf/parser/spec): C12, C07.

const specPkgRe = `ebnf/parser/spec\.`

func init() {
	register(&PropSpec{
		ID: "C12", Level: "proof",
		Pkgs:    []string{"./internal/ebnf/parser/spec", "./internal/ebnf/parser"},
		Prepare: prepareAll,
		Select: []Selector{
			// directive and handle actions 12-19, the rule actions 20/21 that build the productions a rule handle stands for,
			// and the frame clause "no other action touches the recorded levels"
			{Units: specPkgRe + `Parse\$1$`, Names: `#post\[(c1[2-9]-|c2[01]-|directive-appends-one|others-keep-levels)`},
			{Units: specPkgRe + `Parse\$1$`, Names: `#post\[(typed|inv)\]\{i=(1[2-9]|2[01])\}`},
			{Units: specPkgRe + `Parse\$1$`, Names: `#(inv-init|inv-pres|inv-frame)\[[678],`},
			{Units: specPkgRe + `Parse\$1$`, Kinds: `^(vacuity|frame)$`},
			{Units: specPkgRe + `SymbolTable\.(AddPrecedence|Precedences|AddProduction)$`},
			{Units: specPkgRe + `NewSymbolTable$`, Kinds: `^(post|vacuity)$`},
			{Units: specPkgRe + `Parse$`, Kinds: `^(refine|pre|vacuity)$`},
			{Units: `ebnf/parser\.Parser\.ParseAndEvaluate(\$\d+)?$`, Kinds: `^(post|pre|provides|refine|inv-init|inv-pres|vacuity)$`},
		},
		Lemmas: []string{"L-STACK: in an LR parse the semantic values handed to the action of production A -> X1..Xn are the values produced for X1..Xn, in order (the stack spells a viable prefix; Aho et al. §4.5-4.6). Every action is proved to return a value of its head's type given body values of theirs; the per-symbol type table is generated from the productions literal (specs/gen/ebnf_values.gvc)"},
		Trusted: []string{
			"assumed contracts: lr.NewPrecedenceHandles (the handle set is a function of the handles passed), symboltable Get/Put/All (finite map; dom only grows), sync.Mutex (no sequential effect)",
			"A-ALIAS: append on a slice taken from a previous action's value extends that value (single consumer: each semantic value is consumed by exactly one reduction)",
			"A-TABLES, A-SOURCE (see C18)"},
	})
	register(&PropSpec{
		ID: "C07", Level: "proof",
		Pkgs:    []string{"./internal/ebnf/parser/spec", "./internal/ebnf/parser"},
		Prepare: prepareAll,
		Select: []Selector{
			{Units: specPkgRe + `Parse\$1$`, Names: `#post\[(c9-|c10-|c11-|c33-|c34-|c0-|errs-kept)`},
			{Units: specPkgRe + `Parse\$1$`, Names: `#post\[(typed|inv)\]\{i=(0|9|10|11|33|34)\}`},
			{Units: specPkgRe + `Parse\$1$`, Kinds: `^(vacuity|frame)$`},
			{Units: specPkgRe + `SymbolTable\.(AddStringTerminal|AddTokenTerminal|AddStringTokenDef|AddRegexTokenDef|Verify|ensureSingleDefs(\$1)?|ensureDistinctDefs(\$1)?|ensureStartSymbol(\$1)?|Definitions(\$1)?|Terminals|NonTerminals)$`},
			{Units: specPkgRe + `NewSymbolTable$`, Kinds: `^(post|vacuity)$`},
			{Units: specPkgRe + `Parse$`},
		},
		Lemmas: []string{"L-STACK (see C12)"},
		Trusted: []string{
			"assumed contracts (A-DEP): grammar.CFG.Verify / lr.PrecedenceLevels.Verify (nil or a non-empty MultiError; WHAT they check - start symbol present, every non-terminal has a production, symbols declared, no handle in two levels - is read off their source and not re-proved), errors.Append / ErrorOrNil (error counter), symboltable (finite map), sort.Quick (permutation), generic.Transform, fmt.Errorf",
			"A-EQ: grammar.EqTerminal/EqNonTerminal are Go's == (dependency source)",
			"not decided: 'two terminals with the same value' and 'no start rule' are checked by ensureDistinctDefs / ensureStartSymbol, for which only safety, frame and 'nil or non-empty error' are proved (their iff-characterisation over a Go map / AnyMatch is not), and the diagnostics' wording"},
	})
}
