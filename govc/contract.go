package main

// Contract language: file format and expression parser.

import (
	"fmt"
	"os"
	"strconv"
	"strings"
	"unicode"
	"unicode/utf8"
)

// ---------- expression AST ----------

type SExpr interface{}

type (
	SIdent  struct{ Name string }
	SIntLit struct{ V string }
	SStrLit struct{ V string }
	SBoolLit struct{ V bool }
	SUnary  struct {
		Op string
		X  SExpr
	}
	SBinary struct {
		Op   string
		X, Y SExpr
	}
	SCall struct {
		Fun  SExpr
		Args []SExpr
	}
	SSel struct {
		X   SExpr
		Sel string
	}
	SIndex struct{ X, I SExpr }
	SSlice struct{ X, Lo, Hi SExpr }
	SQVar  struct{ Name, Type string }
	SQuant struct {
		Forall bool
		Vars   []SQVar
		Trig   [][]SExpr
		Body   SExpr
	}
	SIte struct{ C, A, B SExpr }
	SLet struct {
		Name string
		Val  SExpr
		Body SExpr
	}
)

type tok struct {
	k string // "id","int","str","chr","op","eof"
	s string
}

func lexSpec(src string) ([]tok, error) {
	var ts []tok
	i := 0
	for i < len(src) {
		c := src[i]
		switch {
		case c == ' ' || c == '\t' || c == '\n' || c == '\r':
			i++
		case isIdentStart(src[i:]):
			j := i
			for j < len(src) {
				r, sz := utf8.DecodeRuneInString(src[j:])
				if !(unicode.IsLetter(r) || unicode.IsDigit(r) || r == '_' || r == '$') {
					break
				}
				j += sz
			}
			ts = append(ts, tok{"id", src[i:j]})
			i = j
		case c >= '0' && c <= '9':
			j := i
			for j < len(src) && (src[j] >= '0' && src[j] <= '9' || src[j] == 'x' || src[j] >= 'a' && src[j] <= 'f' || src[j] >= 'A' && src[j] <= 'F') {
				j++
			}
			v, err := strconv.ParseInt(src[i:j], 0, 64)
			if err != nil {
				return nil, fmt.Errorf("bad number %q", src[i:j])
			}
			ts = append(ts, tok{"int", strconv.FormatInt(v, 10)})
			i = j
		case c == '"' || c == '`':
			j := i + 1
			for j < len(src) && src[j] != c {
				if src[j] == '\\' && c == '"' {
					j++
				}
				j++
			}
			if j >= len(src) {
				return nil, fmt.Errorf("unterminated string")
			}
			v, err := strconv.Unquote(src[i : j+1])
			if err != nil {
				return nil, fmt.Errorf("bad string %s", src[i:j+1])
			}
			ts = append(ts, tok{"str", v})
			i = j + 1
		case c == '\'':
			j := i + 1
			for j < len(src) && src[j] != '\'' {
				if src[j] == '\\' {
					j++
				}
				j++
			}
			if j >= len(src) {
				return nil, fmt.Errorf("unterminated char")
			}
			v, _, _, err := strconv.UnquoteChar(src[i+1:j], '\'')
			if err != nil {
				return nil, fmt.Errorf("bad char %s", src[i:j+1])
			}
			ts = append(ts, tok{"int", strconv.Itoa(int(v))})
			i = j + 1
		default:
			ops := []string{"<==>", "==>", "::", "==", "!=", "<=", ">=", "&&", "||", "++"}
			matched := false
			for _, op := range ops {
				if strings.HasPrefix(src[i:], op) {
					ts = append(ts, tok{"op", op})
					i += len(op)
					matched = true
					break
				}
			}
			if !matched {
				ts = append(ts, tok{"op", string(c)})
				i++
			}
		}
	}
	ts = append(ts, tok{"eof", ""})
	return ts, nil
}

type sparser struct {
	ts   []tok
	p    int
	src  string
	noIn bool // parsing the value of `let x = v in ...`: `in` ends the value
}

func parseSpecExpr(src string) (e SExpr, err error) {
	ts, err := lexSpec(src)
	if err != nil {
		return nil, fmt.Errorf("%v in %q", err, src)
	}
	p := &sparser{ts: ts, src: src}
	defer func() {
		if r := recover(); r != nil {
			if pe, ok := r.(specParseErr); ok {
				err = fmt.Errorf("%s in %q", string(pe), src)
				return
			}
			panic(r)
		}
	}()
	e = p.expr()
	if p.peek().k != "eof" {
		p.fail("unexpected %q", p.peek().s)
	}
	return e, nil
}

type specParseErr string

func (p *sparser) fail(f string, a ...any) { panic(specParseErr(fmt.Sprintf(f, a...))) }
func (p *sparser) peek() tok               { return p.ts[p.p] }
func (p *sparser) next() tok               { t := p.ts[p.p]; p.p++; return t }
func (p *sparser) isOp(s string) bool      { t := p.peek(); return t.k == "op" && t.s == s }
func (p *sparser) isID(s string) bool      { t := p.peek(); return t.k == "id" && t.s == s }
func (p *sparser) expectOp(s string) {
	if !p.isOp(s) {
		p.fail("expected %q, got %q", s, p.peek().s)
	}
	p.p++
}

func (p *sparser) expr() SExpr {
	c := p.iff()
	if p.isOp("?") {
		p.p++
		a := p.expr()
		p.expectOp(":")
		b := p.expr()
		return &SIte{c, a, b}
	}
	return c
}

func (p *sparser) iff() SExpr {
	x := p.implies()
	for p.isOp("<==>") {
		p.p++
		y := p.implies()
		x = &SBinary{"<==>", x, y}
	}
	return x
}

func (p *sparser) implies() SExpr {
	x := p.or()
	if p.isOp("==>") {
		p.p++
		y := p.implies()
		return &SBinary{"==>", x, y}
	}
	return x
}

func (p *sparser) or() SExpr {
	x := p.and()
	for p.isOp("||") {
		p.p++
		x = &SBinary{"||", x, p.and()}
	}
	return x
}

func (p *sparser) and() SExpr {
	x := p.cmp()
	for p.isOp("&&") {
		p.p++
		x = &SBinary{"&&", x, p.cmp()}
	}
	return x
}

func (p *sparser) cmp() SExpr {
	x := p.add()
	for {
		t := p.peek()
		if t.k == "op" && (t.s == "==" || t.s == "!=" || t.s == "<" || t.s == "<=" || t.s == ">" || t.s == ">=") {
			p.p++
			y := p.add()
			x = &SBinary{t.s, x, y}
			continue
		}
		if t.k == "id" && t.s == "in" && !p.noIn {
			p.p++
			y := p.add()
			x = &SBinary{"in", x, y}
			continue
		}
		return x
	}
}

func (p *sparser) add() SExpr {
	x := p.mul()
	for p.isOp("+") || p.isOp("-") || p.isOp("++") {
		op := p.next().s
		x = &SBinary{op, x, p.mul()}
	}
	return x
}

func (p *sparser) mul() SExpr {
	x := p.unary()
	for p.isOp("*") || p.isOp("/") || p.isOp("%") {
		op := p.next().s
		x = &SBinary{op, x, p.unary()}
	}
	return x
}

func (p *sparser) unary() SExpr {
	if p.isOp("!") {
		p.p++
		return &SUnary{"!", p.unary()}
	}
	if p.isOp("-") {
		p.p++
		return &SUnary{"-", p.unary()}
	}
	return p.postfix()
}

func (p *sparser) postfix() SExpr {
	x := p.primary()
	for {
		switch {
		case p.isOp("."):
			p.p++
			t := p.next()
			if t.k != "id" {
				p.fail("expected field name after '.'")
			}
			x = &SSel{x, t.s}
		case p.isOp("["):
			p.p++
			var lo SExpr
			if !p.isOp(":") {
				lo = p.expr()
			}
			if p.isOp(":") {
				p.p++
				var hi SExpr
				if !p.isOp("]") {
					hi = p.expr()
				}
				p.expectOp("]")
				x = &SSlice{x, lo, hi}
			} else {
				p.expectOp("]")
				x = &SIndex{x, lo}
			}
		case p.isOp("("):
			p.p++
			var args []SExpr
			for !p.isOp(")") {
				args = append(args, p.expr())
				if p.isOp(",") {
					p.p++
				} else {
					break
				}
			}
			p.expectOp(")")
			x = &SCall{x, args}
		default:
			return x
		}
	}
}

// typeText consumes tokens of a type expression up to ',' or '::' at depth 0.
func (p *sparser) typeText() string {
	var b strings.Builder
	depth := 0
	for {
		t := p.peek()
		if t.k == "eof" {
			break
		}
		if t.k == "op" {
			if depth == 0 && (t.s == "," || t.s == "::") {
				break
			}
			if t.s == "[" || t.s == "(" {
				depth++
			}
			if t.s == "]" || t.s == ")" {
				depth--
			}
		}
		b.WriteString(t.s)
		if t.k == "id" && (t.s == "map" || t.s == "set" || t.s == "seq") {
			// no space
		}
		p.p++
	}
	return b.String()
}

func (p *sparser) primary() SExpr {
	t := p.next()
	switch t.k {
	case "int":
		return &SIntLit{t.s}
	case "str":
		return &SStrLit{t.s}
	case "id":
		switch t.s {
		case "true":
			return &SBoolLit{true}
		case "false":
			return &SBoolLit{false}
		case "forall", "exists":
			q := &SQuant{Forall: t.s == "forall"}
			for {
				n := p.next()
				if n.k != "id" {
					p.fail("expected bound variable name")
				}
				ty := p.typeText()
				q.Vars = append(q.Vars, SQVar{n.s, ty})
				if p.isOp(",") {
					p.p++
					continue
				}
				break
			}
			p.expectOp("::")
			for p.isOp("{") { // triggers { e, e }
				p.p++
				var tr []SExpr
				for !p.isOp("}") {
					tr = append(tr, p.expr())
					if p.isOp(",") {
						p.p++
					}
				}
				p.expectOp("}")
				q.Trig = append(q.Trig, tr)
			}
			q.Body = p.expr()
			return q
		case "let":
			n := p.next()
			p.expectOp("=")
			saved := p.noIn
			p.noIn = true
			v := p.expr()
			p.noIn = saved
			if !p.isID("in") {
				p.fail("expected 'in' in let")
			}
			p.p++
			b := p.expr()
			return &SLet{n.s, v, b}
		}
		return &SIdent{t.s}
	case "op":
		if t.s == "(" {
			saved := p.noIn
			p.noIn = false
			e := p.expr()
			p.noIn = saved
			p.expectOp(")")
			return e
		}
	}
	p.fail("unexpected %q", t.s)
	return nil
}

// ---------- contract files ----------

type Clause struct {
	Label   string
	PkgPath string
	Text string
	Expr SExpr
	Line int
	File string
}

type LoopSpec struct {
	Steps      []*Clause
	Invariants []*Clause
	Decreases  *Clause
	used       bool
}

type CallbackGhost struct {
	Name string
	Expr *Clause
}

type CallbackSpec struct {
	Name      string
	Frameless bool
	Ghosts    []CallbackGhost // ghost arguments: values of the caller's state exported to implementers
	Requires  []*Clause       // internal obligations at the call site (may mention the caller's locals)
	Provides  []*Clause       // obligations at the call site that implementers may rely on (over args, ghosts, cbinv)
	Ensures   []*Clause       // what implementers must establish (assumed after the call)
}

type FuncContract struct {
	PkgPath    string
	Key        string // "pkgpath.Func" | "pkgpath.Type.Method" | with $n suffix for closures
	Header     string
	ParamNames []string // from the header, positional ("" = use declared)
	RecvName   string
	Pure       bool
	Assumed    bool
	Track      []string // callee names whose calls are recorded in the ghost ncalls()/lasterr() (direct calls)
	NoReturn   bool // the function never returns (os.Exit)
	Yields     []*Clause // facts about every element an iterator result yields (over k, v)
	YieldsDomain *Clause // set of keys: each is yielded exactly once before a loop over the iterator ends normally
	Callsites  []*CallsiteSpec
	FreshResult bool // the (first) result is a newly allocated object nobody else references
	Opaque     bool // do not verify the body (e.g. outside subset) but not a dependency: listed as trusted
	Requires   []*Clause
	Assumes    []*Clause // stated-lemma preconditions: assumed in the body, NOT checked at call sites (listed in evidence)
	Ensures    []*Clause
	InternalEnsures []*Clause // proved for the function, not exported to callers (may mention its locals)
	Modifies   []*Clause
	Decreases  *Clause
	Loops      map[int]*LoopSpec
	Splits     []SplitSpec
	Callbacks  []*CallbackSpec
	CbInvParam string  // interpretation of the abstract callback invariant: cbinv <param> = <expr>
	CbInvBody  *Clause
	ClientInvBody *Clause // interpretation of the abstract client invariant clientinv() of callees: clientinv = <expr>
	Captures   []*Clause // facts about captured variables of a closure unit (requires-like)
	File       string
	Line       int
	Used       bool
}

type SplitSpec struct {
	Var    string
	Lo, Hi int
}

type GhostFunc struct {
	Name    string
	Params  []SQVar
	Ret     string
	Body    *Clause // nil for uninterpreted
	Extern  bool
	Define  bool // stateless: emitted as an SMT define-fun instead of being inlined
	PkgPath string
}

type GhostVar struct {
	Name    string
	Type    string
	PkgPath string
}

type CallsiteSpec struct {
	Callee   string // suffix of the callee key, e.g. "os.Exit"
	Requires []*Clause
	Assumes  []*Clause // stated-lemma facts about the callee's results, assumed after the call (listed in evidence)
	used     bool
}

type GhostField struct {
	Owner   string // type name as written, e.g. "inputBuffer" or "list.Stack"
	Name    string
	Type    string
	PkgPath string
	ZeroInit bool // "zeroinit": the zero value of the owner type has the zero value of this field
}

type ContractFile struct {
	Path    string
	PkgPath string
	Imports map[string]string // name -> path
	SMTImports []string
	Funcs   []*FuncContract
	Ghosts  []*GhostFunc
	Fields  []*GhostField
	Aliases [][3]string // type, target type, package path
	Vars    []*GhostVar
	Axioms  []*Clause
}

var clauseKeywords = map[string]bool{
	"func": true, "pure": true, "assumed": true, "opaque": true, "requires": true, "ensures": true, "modifies": true,
	"decreases": true, "loop": true, "split": true, "ghost": true, "spec": true, "def": true, "axiom": true, "extern": true,
	"spec-import": true, "import": true, "package": true, "captures": true, "callback": true, "fresh-result": true, "cbinv": true, "internal": true, "noreturn": true, "callsite": true, "yields": true, "track": true, "assumes": true, "yields-domain": true, "clientinv": true,
}

// parseContractFile reads either a Go file with //@ lines or a raw .gvc file.
func parseContractFile(path string, pkgPath string) (*ContractFile, error) {
	data, err := os.ReadFile(path)
	if err != nil {
		return nil, err
	}
	raw := strings.HasSuffix(path, ".gvc")
	cf := &ContractFile{Path: path, PkgPath: pkgPath, Imports: map[string]string{}}
	type ln struct {
		text string
		no   int
	}
	var lines []ln
	for i, l := range strings.Split(string(data), "\n") {
		t := strings.TrimSpace(l)
		if raw {
			if t == "" || strings.HasPrefix(t, "#") {
				continue
			}
			t = strings.TrimPrefix(t, "//@")
			lines = append(lines, ln{strings.TrimSpace(t), i + 1})
			continue
		}
		if !strings.HasPrefix(t, "//@") {
			continue
		}
		t = strings.TrimSpace(t[3:])
		if t == "" {
			continue
		}
		lines = append(lines, ln{t, i + 1})
	}
	// join continuation lines
	var joined []ln
	for _, l := range lines {
		first := l.text
		if i := strings.IndexAny(first, " \t[("); i >= 0 {
			first = first[:i]
		}
		if !clauseKeywords[first] && len(joined) > 0 {
			joined[len(joined)-1].text += " " + l.text
			continue
		}
		joined = append(joined, l)
	}
	var cur *FuncContract
	mk := func(text string, no int) (*Clause, error) {
		label := ""
		if strings.HasPrefix(text, "@") {
			i := strings.IndexAny(text, " \t")
			if i < 0 {
				return nil, fmt.Errorf("%s:%d: label without clause", path, no)
			}
			label, text = text[1:i], strings.TrimSpace(text[i+1:])
		}
		e, err := parseSpecExpr(text)
		if err != nil {
			return nil, fmt.Errorf("%s:%d: %v", path, no, err)
		}
		return &Clause{Label: label, Text: text, Expr: e, Line: no, File: path, PkgPath: cf.PkgPath}, nil
	}
	for _, l := range joined {
		kw, rest := l.text, ""
		if i := strings.IndexAny(l.text, " \t"); i >= 0 {
			kw, rest = l.text[:i], strings.TrimSpace(l.text[i+1:])
		}
		if strings.HasPrefix(kw, "loop[") {
			rest = l.text[4:]
			kw = "loop"
		}
		switch kw {
		case "package":
			cf.PkgPath = strings.Trim(rest, `"`)
			cur = nil
		case "import":
			parts := strings.Fields(rest)
			if len(parts) == 2 {
				cf.Imports[parts[0]] = strings.Trim(parts[1], `"`)
			} else if len(parts) == 1 {
				p := strings.Trim(parts[0], `"`)
				cf.Imports[p[strings.LastIndex(p, "/")+1:]] = p
			}
		case "spec-import":
			cf.SMTImports = append(cf.SMTImports, strings.Trim(rest, `"`))
		case "ghost", "spec", "extern", "def":
			// ghost func f(a T, b U) R        | spec func f(a T) R = expr | ghost field T.f Type
			if strings.HasPrefix(rest, "var ") {
				parts := strings.SplitN(strings.TrimSpace(rest[4:]), " ", 2)
				if len(parts) != 2 {
					return nil, fmt.Errorf("%s:%d: ghost var <name> <type>", path, l.no)
				}
				cf.Vars = append(cf.Vars, &GhostVar{Name: parts[0], Type: strings.TrimSpace(parts[1]), PkgPath: cf.PkgPath})
				continue
			}
			if strings.HasPrefix(rest, "alias ") {
				// ghost alias A B: objects of type A carry the ghost fields declared for type B (same heaps)
				f := strings.Fields(rest[6:])
				if len(f) != 2 {
					return nil, fmt.Errorf("%s:%d: ghost alias <type> <type>", path, l.no)
				}
				cf.Aliases = append(cf.Aliases, [3]string{f[0], f[1], cf.PkgPath})
				continue
			}
			if strings.HasPrefix(rest, "field ") {
				parts := strings.SplitN(strings.TrimSpace(rest[6:]), " ", 2)
				if len(parts) != 2 {
					return nil, fmt.Errorf("%s:%d: bad ghost field", path, l.no)
				}
				i := strings.LastIndex(parts[0], ".")
				if i < 0 {
					return nil, fmt.Errorf("%s:%d: ghost field needs Type.name", path, l.no)
				}
				ft, zi := strings.TrimSpace(parts[1]), false
				if strings.HasSuffix(ft, " zeroinit") {
					ft, zi = strings.TrimSpace(strings.TrimSuffix(ft, " zeroinit")), true
				}
				cf.Fields = append(cf.Fields, &GhostField{Owner: parts[0][:i], Name: parts[0][i+1:], Type: ft, PkgPath: cf.PkgPath, ZeroInit: zi})
				continue
			}
			if !strings.HasPrefix(rest, "func ") {
				return nil, fmt.Errorf("%s:%d: expected 'func' after %s", path, l.no, kw)
			}
			g, err := parseGhostFunc(strings.TrimSpace(rest[5:]), kw, path, l.no)
			if err != nil {
				return nil, err
			}
			g.PkgPath = cf.PkgPath
			cf.Ghosts = append(cf.Ghosts, g)
			cur = nil
		case "axiom":
			c, err := mk(rest, l.no)
			if err != nil {
				return nil, err
			}
			cf.Axioms = append(cf.Axioms, c)
		case "func":
			cur = &FuncContract{Header: rest, Loops: map[int]*LoopSpec{}, File: path, Line: l.no, PkgPath: cf.PkgPath}
			key, names, rn, err := parseFuncHeader(rest)
			if err != nil {
				return nil, fmt.Errorf("%s:%d: %v", path, l.no, err)
			}
			cur.Key = cf.PkgPath + "." + key
			cur.ParamNames = names
			cur.RecvName = rn
			cf.Funcs = append(cf.Funcs, cur)
		default:
			if cur == nil {
				return nil, fmt.Errorf("%s:%d: clause %q outside a func contract", path, l.no, kw)
			}
			switch kw {
			case "pure":
				cur.Pure = true
			case "assumed":
				cur.Assumed = true
			case "opaque":
				cur.Opaque = true
			case "fresh-result":
				cur.FreshResult = true
			case "track":
				cur.Track = append(cur.Track, strings.Fields(rest)...)
			case "noreturn":
				cur.NoReturn = true
			case "yields":
				c, err := mk(rest, l.no)
				if err != nil {
					return nil, err
				}
				cur.Yields = append(cur.Yields, c)
			case "yields-domain":
				c, err := mk(rest, l.no)
				if err != nil {
					return nil, err
				}
				cur.YieldsDomain = c
			case "callsite":
				// callsite <callee> requires <expr>
				f := strings.SplitN(rest, " ", 3)
				if len(f) < 3 || (f[1] != "requires" && f[1] != "assumes") {
					return nil, fmt.Errorf("%s:%d: callsite <callee> requires|assumes <expr>", path, l.no)
				}
				c, err := mk(f[2], l.no)
				if err != nil {
					return nil, err
				}
				var cs *CallsiteSpec
				for _, x := range cur.Callsites {
					if x.Callee == f[0] {
						cs = x
					}
				}
				if cs == nil {
					cs = &CallsiteSpec{Callee: f[0]}
					cur.Callsites = append(cur.Callsites, cs)
				}
				if f[1] == "assumes" {
					cs.Assumes = append(cs.Assumes, c)
				} else {
					cs.Requires = append(cs.Requires, c)
				}
			case "requires", "ensures", "decreases", "captures", "assumes":
				c, err := mk(rest, l.no)
				if err != nil {
					return nil, err
				}
				switch kw {
				case "requires":
					cur.Requires = append(cur.Requires, c)
				case "assumes":
					cur.Assumes = append(cur.Assumes, c)
				case "ensures":
					cur.Ensures = append(cur.Ensures, c)
				case "captures":
					cur.Captures = append(cur.Captures, c)
				default:
					cur.Decreases = c
				}
			case "modifies":
				for _, part := range splitTop(rest, ',') {
					c, err := mk(strings.TrimSpace(part), l.no)
					if err != nil {
						return nil, err
					}
					cur.Modifies = append(cur.Modifies, c)
				}
			case "callback":
				// callback <name> requires|ensures <expr>   |  callback <name> frameless
				f := strings.SplitN(rest, " ", 3)
				if len(f) < 2 {
					return nil, fmt.Errorf("%s:%d: bad callback clause", path, l.no)
				}
				var cb *CallbackSpec
				for _, x := range cur.Callbacks {
					if x.Name == f[0] {
						cb = x
					}
				}
				if cb == nil {
					cb = &CallbackSpec{Name: f[0]}
					cur.Callbacks = append(cur.Callbacks, cb)
				}
				switch f[1] {
				case "frameless":
					cb.Frameless = true
				case "ghost":
					// callback X ghost d = expr
					if len(f) < 3 || !strings.Contains(f[2], "=") {
						return nil, fmt.Errorf("%s:%d: callback ghost needs name = expr", path, l.no)
					}
					k := strings.Index(f[2], "=")
					c, err := mk(strings.TrimSpace(f[2][k+1:]), l.no)
					if err != nil {
						return nil, err
					}
					cb.Ghosts = append(cb.Ghosts, CallbackGhost{Name: strings.TrimSpace(f[2][:k]), Expr: c})
				case "requires", "ensures", "provides":
					if len(f) < 3 {
						return nil, fmt.Errorf("%s:%d: callback clause needs an expression", path, l.no)
					}
					c, err := mk(f[2], l.no)
					if err != nil {
						return nil, err
					}
					switch f[1] {
					case "requires":
						cb.Requires = append(cb.Requires, c)
					case "provides":
						cb.Provides = append(cb.Provides, c)
					default:
						cb.Ensures = append(cb.Ensures, c)
					}
				default:
					return nil, fmt.Errorf("%s:%d: callback clause must be requires/provides/ensures/ghost/frameless", path, l.no)
				}
			case "internal":
				if !strings.HasPrefix(rest, "ensures ") {
					return nil, fmt.Errorf("%s:%d: internal ensures <expr>", path, l.no)
				}
				c, err := mk(strings.TrimSpace(rest[8:]), l.no)
				if err != nil {
					return nil, err
				}
				cur.InternalEnsures = append(cur.InternalEnsures, c)
			case "clientinv":
				k := strings.Index(rest, "=")
				if k < 0 {
					return nil, fmt.Errorf("%s:%d: clientinv = <expr>", path, l.no)
				}
				c, err := mk(strings.TrimSpace(rest[k+1:]), l.no)
				if err != nil {
					return nil, err
				}
				cur.ClientInvBody = c
			case "cbinv":
				k := strings.Index(rest, "=")
				if k < 0 {
					return nil, fmt.Errorf("%s:%d: cbinv <param> = <expr>", path, l.no)
				}
				c, err := mk(strings.TrimSpace(rest[k+1:]), l.no)
				if err != nil {
					return nil, err
				}
				cur.CbInvParam = strings.TrimSpace(rest[:k])
				cur.CbInvBody = c
			case "split":
				f := strings.Fields(rest)
				if len(f) != 3 {
					return nil, fmt.Errorf("%s:%d: split var lo hi", path, l.no)
				}
				lo, _ := strconv.Atoi(f[1])
				hi, _ := strconv.Atoi(f[2])
				cur.Splits = append(cur.Splits, SplitSpec{f[0], lo, hi})
			case "loop":
				// rest = "[k] invariant e" | "[k] decreases e"
				j := strings.Index(rest, "]")
				if !strings.HasPrefix(rest, "[") || j < 0 {
					return nil, fmt.Errorf("%s:%d: bad loop clause", path, l.no)
				}
				k, err := strconv.Atoi(rest[1:j])
				if err != nil {
					return nil, fmt.Errorf("%s:%d: bad loop ordinal", path, l.no)
				}
				body := strings.TrimSpace(rest[j+1:])
				body = strings.TrimPrefix(body, ":")
				body = strings.TrimSpace(body)
				ls := cur.Loops[k]
				if ls == nil {
					ls = &LoopSpec{}
					cur.Loops[k] = ls
				}
				switch {
				case strings.HasPrefix(body, "invariant "):
					c, err := mk(body[10:], l.no)
					if err != nil {
						return nil, err
					}
					ls.Invariants = append(ls.Invariants, c)
				case strings.HasPrefix(body, "step "):
					c, err := mk(body[5:], l.no)
					if err != nil {
						return nil, err
					}
					ls.Steps = append(ls.Steps, c)
				case strings.HasPrefix(body, "decreases "):
					c, err := mk(body[10:], l.no)
					if err != nil {
						return nil, err
					}
					ls.Decreases = c
				default:
					return nil, fmt.Errorf("%s:%d: loop clause must be invariant/decreases", path, l.no)
				}
			default:
				return nil, fmt.Errorf("%s:%d: unknown clause %q", path, l.no, kw)
			}
		}
	}
	return cf, nil
}

func splitTop(s string, sep byte) []string {
	var out []string
	depth, last := 0, 0
	for i := 0; i < len(s); i++ {
		switch s[i] {
		case '(', '[', '{':
			depth++
		case ')', ']', '}':
			depth--
		default:
			if s[i] == sep && depth == 0 {
				out = append(out, s[last:i])
				last = i + 1
			}
		}
	}
	out = append(out, s[last:])
	return out
}

// parseFuncHeader: "advanceDFA(state int, r rune) int" | "(l *Lexer) NextToken() (lexer.Token, error)" | "Parse$1(...)"
// returns key "Name" or "Type.Name" and positional parameter names.
func parseFuncHeader(h string) (string, []string, string, error) {
	h = strings.TrimSpace(h)
	recv := ""
	recvName := ""
	if strings.HasPrefix(h, "(") {
		j := matchParen(h, 0)
		if j < 0 {
			return "", nil, "", fmt.Errorf("bad receiver in %q", h)
		}
		r := strings.TrimSpace(h[1:j])
		f := strings.Fields(r)
		tn := f[len(f)-1]
		tn = strings.TrimPrefix(tn, "*")
		if i := strings.Index(tn, "["); i >= 0 {
			tn = tn[:i]
		}
		recv = tn
		if len(f) >= 2 {
			recvName = f[0]
		}
		h = strings.TrimSpace(h[j+1:])
	}
	i := strings.IndexAny(h, "( ")
	name := h
	params := ""
	if i >= 0 {
		name = h[:i]
		if h[i] == '(' {
			j := matchParen(h, i)
			if j > 0 {
				params = h[i+1 : j]
			}
		}
	}
	if k := strings.Index(name, "["); k >= 0 { // generic Name[T]
		name = name[:k]
	}
	var names []string
	if strings.TrimSpace(params) != "" {
		for _, p := range splitTop(params, ',') {
			f := strings.Fields(strings.TrimSpace(p))
			if len(f) >= 2 {
				names = append(names, f[0])
			} else {
				names = append(names, "")
			}
		}
	}
	if recv != "" {
		return recv + "." + name, names, recvName, nil
	}
	return name, names, "", nil
}

func matchParen(s string, i int) int {
	d := 0
	for j := i; j < len(s); j++ {
		switch s[j] {
		case '(':
			d++
		case ')':
			d--
			if d == 0 {
				return j
			}
		}
	}
	return -1
}

func parseGhostFunc(s, kw, path string, no int) (*GhostFunc, error) {
	i := strings.Index(s, "(")
	if i < 0 {
		return nil, fmt.Errorf("%s:%d: bad ghost func", path, no)
	}
	j := matchParen(s, i)
	if j < 0 {
		return nil, fmt.Errorf("%s:%d: bad ghost func params", path, no)
	}
	g := &GhostFunc{Name: strings.TrimSpace(s[:i]), Extern: kw == "extern"}
	ps := strings.TrimSpace(s[i+1 : j])
	if ps != "" {
		for _, p := range splitTop(ps, ',') {
			p = strings.TrimSpace(p)
			k := strings.IndexAny(p, " \t")
			if k < 0 {
				return nil, fmt.Errorf("%s:%d: ghost func param needs name and type: %q", path, no, p)
			}
			g.Params = append(g.Params, SQVar{p[:k], strings.TrimSpace(p[k+1:])})
		}
	}
	rest := strings.TrimSpace(s[j+1:])
	if k := strings.Index(rest, "="); k >= 0 && (kw == "spec" || kw == "def") {
		g.Define = kw == "def"
		g.Ret = strings.TrimSpace(rest[:k])
		e, err := parseSpecExpr(strings.TrimSpace(rest[k+1:]))
		if err != nil {
			return nil, fmt.Errorf("%s:%d: %v", path, no, err)
		}
		g.Body = &Clause{Text: rest[k+1:], Expr: e, Line: no, File: path}
	} else {
		g.Ret = rest
	}
	if g.Ret == "" {
		g.Ret = "bool"
	}
	return g, nil
}

func isIdentStart(s string) bool {
	r, _ := utf8.DecodeRuneInString(s)
	return unicode.IsLetter(r) || r == '_'
}
