package main

import (
	"flag"
	"fmt"
	"os"
	"regexp"
	"sort"
	"strings"
	"time"
)

func main() {
	if len(os.Args) < 2 {
		fmt.Fprintln(os.Stderr, "usage: govc dev|check ...")
		os.Exit(2)
	}
	defer cleanupScratch()
	switch os.Args[1] {
	case "dev":
		devMain(os.Args[2:])
	case "check":
		rc := checkMain(os.Args[2:])
		cleanupScratch()
		os.Exit(rc)
	default:
		fmt.Fprintln(os.Stderr, "unknown command", os.Args[1])
		os.Exit(2)
	}
}

// dev: verify units matching a regexp and print every obligation.
func devMain(args []string) {
	fs := flag.NewFlagSet("dev", flag.ExitOnError)
	repo := fs.String("repo", "/repo", "repository root")
	pkgs := fs.String("pkgs", "./...", "package patterns (comma separated)")
	filter := fs.String("units", ".", "regexp on unit keys")
	timeout := fs.Int("t", 10, "solver timeout (s)")
	keep := fs.String("keep", "", "directory to keep failed queries")
	verbose := fs.Bool("v", false, "print proved obligations too")
	dump := fs.String("dump", "", "obligation name whose query is printed")
	backends := fs.String("backends", "", "comma separated solver names")
	fs.Parse(args)
	t0 := time.Now()
	eng, err := loadEngine(*repo, strings.Split(*pkgs, ","), []string{"/verif/contracts/dep", "/verif/specs/gen"})
	if err != nil {
		fmt.Fprintln(os.Stderr, "load:", err)
		os.Exit(2)
	}
	for _, e := range eng.loadErrs {
		fmt.Println("LOAD-ERROR:", e)
	}
	fmt.Printf("loaded %d packages, %d units, %d contracts in %.1fs\n", len(eng.allPkgs), len(eng.units), len(eng.contracts), time.Since(t0).Seconds())
	re := regexp.MustCompile(*filter)
	var keys []string
	for _, k := range eng.unitOrder {
		if re.MatchString(k) {
			keys = append(keys, k)
		}
	}
	sort.Strings(keys)
	var all []*Obligation
	for _, k := range keys {
		u := eng.units[k]
		t1 := time.Now()
		res, _ := eng.generate(u)
		fmt.Printf("== %s: %d obligations (%.2fs)\n", k, len(res.Obligations), time.Since(t1).Seconds())
		for _, s := range res.Unsupported {
			fmt.Println("   UNSUPPORTED:", s)
		}
		for _, s := range res.SpecErrors {
			fmt.Println("   SPEC-ERROR:", s)
		}
		for _, s := range res.Uncontracted {
			fmt.Println("   uncontracted callee:", s)
		}
		for _, s := range res.Assumptions {
			fmt.Println("   assumption:", s)
		}
		all = append(all, res.Obligations...)
	}
	if *dump != "" {
		for _, o := range all {
			if o.Name == *dump {
				fmt.Println(o.query())
			}
		}
		return
	}
	var bk []string
	if *backends != "" {
		bk = strings.Split(*backends, ",")
	}
	t2 := time.Now()
	dischargeAll(all, solveOpts{TimeoutS: *timeout, Seed: 0, Backends: bk}, 16, *keep)
	np, nf := 0, 0
	for _, o := range all {
		ok := o.Result.Verdict == Proved
		if o.MustFail {
			ok = o.Result.Verdict != Proved
		}
		if ok {
			np++
			if *verbose {
				fmt.Printf("  ok   %-60s %s %.2fs\n", o.Name, o.Result.Backend, o.Result.Secs)
			}
			continue
		}
		nf++
		fmt.Printf("  FAIL %-60s %s %s %.2fs  %s:%d  %s\n", o.Name, o.Result.Verdict, o.Result.Backend, o.Result.Secs, o.Pos.Filename, o.Pos.Line, o.Desc)
		if o.Result.Verdict == Unknown && o.Result.Output != "" {
			fmt.Println("       ", truncate(strings.ReplaceAll(o.Result.Output, "\n", " || "), 300))
		}
	}
	fmt.Printf("discharged %d/%d in %.1fs\n", np, np+nf, time.Since(t2).Seconds())
}

