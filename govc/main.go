package main

import (
	"fmt"
	"golang.org/x/tools/go/packages"
)

func main() {
	cfg := &packages.Config{Mode: packages.LoadAllSyntax, Dir: "/repo", BuildFlags: []string{"-tags=verif"}}
	pkgs, err := packages.Load(cfg, "./internal/ebnf/lexer")
	fmt.Println(len(pkgs), err)
}
