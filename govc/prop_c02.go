package main

// C02 — token patterns compile to automata that accept exactly the pattern's language.
// C10 — the direct (followpos) construction agrees with the NFA route.

import (
	"bufio"
	"bytes"
	"fmt"
	"os"
	"os/exec"
	"path/filepath"
	"regexp"
	"strconv"
	"strings"
	"time"
)

var routeWhat = map[string]string{
	"nfa-route-accepts-the-empty-string-with-any-or-negated-class": "a pattern with \".\" or a negated class accepts the empty string although it cannot match it: the ASCII table starts at NUL, and symbol 0 is the automata library's epsilon, so these constructs get an empty move",
	"nfa-route-accepts-a-non-match-with-any-or-negated-class":      "a pattern with \".\" or a negated class accepts a string it does not match (the empty move of these constructs: a repetition of them matches fewer characters than required)",
	"routes-disagree-nfa-route-over-matches-with-any-or-negated-class": "the NFA route accepts a string the direct route (correctly) rejects, for a pattern with \".\" or a negated class (the NFA route's empty move on NUL)",
	"routes-disagree-direct-route-wrong": "the direct route differs from the NFA route on a string for which the NFA route follows the documented meaning",
	"nfa-route-accepts-the-empty-string": "a pattern that cannot match the empty string accepts it: the ASCII table starts at NUL, and symbol 0 is the automata library's epsilon, so \".\" and every negated class get an empty move",
	"nfa-route-accepts-a-non-match":      "the token automaton accepts a string the pattern does not match (same root cause as the empty move of \".\" / negated classes: a repetition of it matches fewer characters than required)",
	"nfa-route-rejects-a-match":          "the token automaton rejects a string the pattern matches",
	"direct-route-rejects-a-match":       "the direct construction rejects a string the pattern matches (n-ary concatenation: followpos links an operand to the next operand only, not across nullable operands)",
	"direct-route-accepts-a-non-match":   "the direct construction accepts a string the pattern does not match",
	"nfa-route-charset-wrong-character":    "a character set (literal, bracket group, negated group, range or class escape) of the token automaton contains a character it should not, or lacks one it should contain",
	"direct-route-charset-wrong-character": "a character set of the direct construction contains a character it should not, or lacks one it should contain",
	"routes-disagree":                    "the NFA route and the direct route accept different languages for the same pattern",
}

// runRoutes runs /verif/harness/routes_test.go.txt inside package spec and reports the classes selected by keep.
func runRoutes(c *CheckCtx, keep func(cls string) bool) error {
	t0 := time.Now()
	dir := filepath.Join(scratch(), "routes")
	os.MkdirAll(dir, 0o755)
	src, err := os.ReadFile("/verif/harness/routes_test.go.txt")
	if err != nil {
		return err
	}
	tf := filepath.Join(dir, "zz_routes_test.go")
	os.WriteFile(tf, src, 0o644)
	ov := filepath.Join(dir, "ov.json")
	os.WriteFile(ov, []byte(fmt.Sprintf(`{"Replace":{%q:%q}}`, filepath.Join(c.Repo, "internal/ebnf/parser/spec/zz_routes_test.go"), tf)), 0o644)
	cmd := exec.Command("go", "test", "-overlay", ov, "-vet=off", "-count=1", "-timeout", "900s", "-v", "-run", "TestZZRoutes", "./internal/ebnf/parser/spec")
	cmd.Dir = c.Repo
	cmd.Env = append(os.Environ(), "GOFLAGS=-mod=mod", "GOPROXY=off")
	bound := "about 1 300 patterns (atoms a b . [ab] [^a]; every quantifier form ? * + {2} {0,2} {1,2} {2,}; concatenations of up to 3, alternations, quantified groups) x every string of length <= 4 over {a,b,c}: three-way comparison token automaton / direct construction / documented meaning; plus every ASCII character (NUL excluded) as a literal, alone in a bracket group, alone in a negated group and as a range bound, and every class escape, each x every single ASCII character"
	if c.Tier == "thorough" {
		cmd.Env = append(cmd.Env, "GOVC_ROUTES_BOUND=thorough")
		bound = "about 20 000 patterns: the same space with more quantifier forms ({1,3} {0,3} {3}) and more units in the products, x every string of length <= 5 over {a,b,c}; the same per-character sweep"
	}
	var out bytes.Buffer
	cmd.Stdout = &out
	cmd.Stderr = &out
	runErr := cmd.Run()
	re := regexp.MustCompile(`^ROUTE-FAIL class=(\S+) pattern=("(?:[^"\\]|\\.)*") input=("(?:[^"\\]|\\.)*") detail=(.*)$`)
	sum := regexp.MustCompile(`^ROUTE-SUMMARY patterns=(\d+) comparisons=(\d+) classes=(\d+)`)
	br := BoundedRun{Name: "language comparison: token automaton (NFA route) / direct construction / documented meaning", Bound: bound}
	saw := false
	sc := bufio.NewScanner(&out)
	sc.Buffer(make([]byte, 1<<20), 1<<20)
	for sc.Scan() {
		line := sc.Text()
		if m := sum.FindStringSubmatch(line); m != nil {
			br.Cases, _ = strconv.Atoi(m[2])
			br.Distinct, _ = strconv.Atoi(m[1])
			saw = true
			continue
		}
		m := re.FindStringSubmatch(line)
		if m == nil {
			continue
		}
		br.Failures = append(br.Failures, line)
		if !keep(m[1]) {
			continue
		}
		what := routeWhat[m[1]]
		pat, _ := strconv.Unquote(m[2])
		in, _ := strconv.Unquote(m[3])
		c.ExtraFindings = append(c.ExtraFindings, Finding{
			Obligation: fmt.Sprintf("regex#routes[%s]", m[1]),
			What:       fmt.Sprintf("bounded language comparison: pattern %s, input %s: %s; %s", m[2], m[3], m[4], what),
			HasInput:   true,
			Replay: map[string]any{"kind": "bounded run against the real code (spec.regexToDFA, ast.Parse(...).ToDFA())", "pattern": pat, "failing_input": in,
				"observed_vs_required": m[4], "confirmed_on_real_code": true, "harness": "/verif/harness/routes_test.go.txt"}})
	}
	br.Secs = round3(time.Since(t0).Seconds())
	c.Bounded = append(c.Bounded, br)
	if !saw {
		return fmt.Errorf("route comparison harness did not complete: %v\n%s", runErr, truncate(out.String(), 2000))
	}
	return nil
}

// The four whole-heap posts of compute() (every memoised value in the heap is still the defined one / allocated /
// old-or-new) discharge in 20-80 s on this machine: too close to a time-out to be claimed in the quick tier, where a
// time-out would be a false alarm. They are claimed in the thorough tier only (60 s, then 240 s with more seeds).
var c10Slow = `#post\[(cache|memo-alloc|memo-fresh)\]`

func c10Select() []Selector {
	units := `regex/parser/ast\.(Concat|Alt|Star|Empty|Char)\.(compute|nullable|firstPos|lastPos)$`
	if os.Getenv("VERIF_TIER") == "thorough" || tierArg() == "thorough" {
		return []Selector{{Units: units}}
	}
	return []Selector{
		{Units: `regex/parser/ast\.(Star|Empty|Char)\.(nullable|firstPos|lastPos)$`},
		{Units: `regex/parser/ast\.(Concat|Alt)\.(nullable|firstPos|lastPos)$`},
		{Units: `regex/parser/ast\.(Concat|Alt)\.compute$`, Names: `#(nil|bounds|pre|inv-init|inv-pres|inv-frame|frame|vacuity|post\[(0|own-nullable|own-firstpos|own-lastpos|above)\])`},
	}
}

func tierArg() string {
	for _, a := range os.Args {
		if a == "thorough" {
			return "thorough"
		}
	}
	return "quick"
}

func init() {
	register(&PropSpec{
		ID: "C02", Level: "other",
		Pkgs:    []string{"./internal/regex/parser/nfa", "./internal/ebnf/parser/spec"},
		Prepare: prepareAll,
		Extra:   func(c *CheckCtx) error { return runRoutes(c, func(cls string) bool { return strings.HasPrefix(cls, "nfa-route") }) },
		Select: []Selector{
			{Units: `regex/parser/nfa\.(mappers\.ToAnyChar|mappers\.ToCharGroup|mappers\.ToCharRange|mappers\.ToRange|mappers\.ToUpperBound|runesToNFA|runeRangesToNFA|runeToNFA|containsRune|includesRune)$`},
			{Units: specPkgRe + `regexToDFA$`},
		},
		Explain: "PROVED for all patterns (per function, on the real code): regexToDFA hands back an automaton whose language is the language of the NFA the pattern parser built - determinising, minimising, pruning and renumbering are the only steps and each keeps the language (assumed for the library, so any extra step, such as un-marking an accepting state, fails the obligation); the character-set builders (any character, classes, negated classes, bracket groups, ranges) never add a move on symbol 0, which the automata library reads as an empty move - four of these obligations FAIL on the current tree (known finding: NUL is in the ASCII table, so '.' and every negated class or group match the empty string); bracket groups do not index outside their table; a descending range or a minimum above the maximum is an error (C09). BOUNDED stand-in (labelled bounded): full three-way language comparison of the token automaton with the documented meaning of the pattern on an enumerated pattern space x all strings up to a length bound. NOT decided: that the mappers assemble the documented language for every pattern (the combinator parser that feeds them is outside the prover's reach: L-COMB).",
		Lemmas:  []string{"L-COMB (see C09)"},
		Trusted: []string{"assumed: automata.NFA.ToDFA / DFA.Minimize / EliminateDeadStates / ReindexStates keep the language (A-DEP)", "A-NONUL: explicit characters of a pattern are not NUL", "A-TABLE: the ASCII table has 128 entries"},
	})
	register(&PropSpec{
		ID: "C10", Level: "other",
		Pkgs:    []string{"./internal/regex/parser/ast"},
		Prepare: prepareAll,
		Extra: func(c *CheckCtx) error {
			return runRoutes(c, func(cls string) bool { return strings.HasPrefix(cls, "direct-route") || strings.HasPrefix(cls, "routes-disagree") })
		},
		TimeoutQuick: 40,
		Select: c10Select(),
		Explain: "PROVED for all syntax trees (on the real code, memoisation included): nullable, firstpos and lastpos of every node kind are the textbook functions (Aho, Lam, Sethi, Ullman 3.9.3, for n-ary nodes): a concatenation is nullable iff all operands are, its firstpos is the union over the operands preceded by nullable operands only (lastpos symmetrically), an alternation is nullable iff some operand is and takes the unions, a star is nullable and takes its operand's sets, a leaf its own position; a memoised value, where present, is the defined one and belongs to one node only. BOUNDED stand-in (labelled bounded): the three-way language comparison NFA route / direct route / documented meaning on an enumerated pattern space x all strings up to a length bound; it covers followpos, the subset construction and cloning, which are not under contract (computeFollows with its six nested loops was beyond what the prover discharged in useful time).",
		Trusted: []string{"the interface contract of Node.nullable/firstPos/lastPos is the conjunction of the five implementations' contracts (identical text, specialised by type); termination of the mutual recursion follows the ghost height but is not an obligation"},
	})
}
