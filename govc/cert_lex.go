package main

// Certificate search for C05/C08: abstraction map from the states of a coded scanner
// (nested-switch transition function) to the states of a reference automaton.
// Untrusted: a wrong map only makes obligations fail.

import (
	"fmt"
	"go/ast"
	"go/constant"
	"go/token"
	"go/types"
	"sort"
	"strings"
)

// concreteEval interprets a loop-free function over integer arguments:
// switch / if / return with constant cases. ok=false if the shape is not supported.
type cval struct {
	k byte // 'i' int, 's' string, 'n' nil, 'e' opaque non-nil value
	i int64
	s string
}

type cinterp struct {
	info *types.Info
	env  map[types.Object]cval
}

func (ci *cinterp) expr(e ast.Expr) (cval, bool) {
	if tv, ok := ci.info.Types[e]; ok && tv.Value != nil {
		switch tv.Value.Kind() {
		case constant.Int:
			v, ok := constant.Int64Val(tv.Value)
			return cval{k: 'i', i: v}, ok
		case constant.Bool:
			if constant.BoolVal(tv.Value) {
				return cval{k: 'i', i: 1}, true
			}
			return cval{k: 'i', i: 0}, true
		case constant.String:
			return cval{k: 's', s: constant.StringVal(tv.Value)}, true
		}
	}
	bi := func(c bool) (cval, bool) {
		if c {
			return cval{k: 'i', i: 1}, true
		}
		return cval{k: 'i', i: 0}, true
	}
	switch x := ast.Unparen(e).(type) {
	case *ast.Ident:
		if x.Name == "nil" {
			return cval{k: 'n'}, true
		}
		if o := ci.info.ObjectOf(x); o != nil {
			v, ok := ci.env[o]
			return v, ok
		}
	case *ast.BinaryExpr:
		a, ok1 := ci.expr(x.X)
		b, ok2 := ci.expr(x.Y)
		if !ok1 || !ok2 {
			return cval{}, false
		}
		if a.k == 's' && b.k == 's' {
			switch x.Op {
			case token.EQL:
				return bi(a.s == b.s)
			case token.NEQ:
				return bi(a.s != b.s)
			}
			return cval{}, false
		}
		if a.k != 'i' || b.k != 'i' {
			return cval{}, false
		}
		switch x.Op {
		case token.EQL:
			return bi(a.i == b.i)
		case token.NEQ:
			return bi(a.i != b.i)
		case token.LSS:
			return bi(a.i < b.i)
		case token.LEQ:
			return bi(a.i <= b.i)
		case token.GTR:
			return bi(a.i > b.i)
		case token.GEQ:
			return bi(a.i >= b.i)
		case token.LAND:
			return bi(a.i != 0 && b.i != 0)
		case token.LOR:
			return bi(a.i != 0 || b.i != 0)
		case token.ADD:
			return cval{k: 'i', i: a.i + b.i}, true
		case token.SUB:
			return cval{k: 'i', i: a.i - b.i}, true
		}
	case *ast.UnaryExpr:
		a, ok := ci.expr(x.X)
		if !ok || a.k != 'i' {
			return cval{}, false
		}
		switch x.Op {
		case token.NOT:
			return bi(a.i == 0)
		case token.SUB:
			return cval{k: 'i', i: -a.i}, true
		}
	case *ast.CallExpr:
		if tv, ok := ci.info.Types[x.Fun]; ok && tv.IsType() && len(x.Args) == 1 {
			return ci.expr(x.Args[0])
		}
		return cval{k: 'e'}, true // any other call yields an opaque non-nil value (fmt.Errorf, ...)
	}
	return cval{}, false
}

// returns (values, returned, ok)
func (ci *cinterp) stmts(list []ast.Stmt) ([]cval, bool, bool) {
	for _, s := range list {
		v, ret, ok := ci.stmt(s)
		if !ok || ret {
			return v, ret, ok
		}
	}
	return nil, false, true
}

func (ci *cinterp) stmt(s ast.Stmt) ([]cval, bool, bool) {
	switch x := s.(type) {
	case *ast.ReturnStmt:
		var out []cval
		for _, r := range x.Results {
			v, ok := ci.expr(r)
			if !ok {
				return nil, false, false
			}
			out = append(out, v)
		}
		return out, true, true
	case *ast.BlockStmt:
		return ci.stmts(x.List)
	case *ast.IfStmt:
		if x.Init != nil {
			return nil, false, false
		}
		c, ok := ci.expr(x.Cond)
		if !ok {
			return nil, false, false
		}
		if c.i != 0 {
			return ci.stmts(x.Body.List)
		}
		if x.Else != nil {
			return ci.stmt(x.Else)
		}
		return nil, false, true
	case *ast.SwitchStmt:
		if x.Init != nil {
			return nil, false, false
		}
		var tag cval
		hasTag := x.Tag != nil
		if hasTag {
			var ok bool
			tag, ok = ci.expr(x.Tag)
			if !ok {
				return nil, false, false
			}
		}
		var def *ast.CaseClause
		for _, c := range x.Body.List {
			cc := c.(*ast.CaseClause)
			if cc.List == nil {
				def = cc
				continue
			}
			for _, e := range cc.List {
				v, ok := ci.expr(e)
				if !ok {
					return nil, false, false
				}
				if (hasTag && v.k == tag.k && v.i == tag.i && v.s == tag.s) || (!hasTag && v.i != 0) {
					return ci.stmts(cc.Body)
				}
			}
		}
		if def != nil {
			return ci.stmts(def.Body)
		}
		return nil, false, true
	case *ast.EmptyStmt:
		return nil, false, true
	}
	return nil, false, false
}

// callFunc interprets fd on concrete arguments.
func callFunc(fd *ast.FuncDecl, info *types.Info, args ...cval) ([]cval, error) {
	ci := &cinterp{info: info, env: map[types.Object]cval{}}
	i := 0
	for _, f := range fd.Type.Params.List {
		for _, n := range f.Names {
			if i < len(args) {
				ci.env[info.Defs[n]] = args[i]
			}
			i++
		}
	}
	v, ret, ok := ci.stmts(fd.Body.List)
	if !ok || !ret {
		return nil, fmt.Errorf("%s: function shape not interpretable", fd.Name.Name)
	}
	return v, nil
}

// codedDFA wraps a Go function (state int, r rune) int interpreted concretely.
type codedDFA struct {
	fd   *ast.FuncDecl
	info *types.Info
	params []types.Object
	consts []int64 // integer constants appearing in the function (representative symbols)
}

func newCodedDFA(fd *ast.FuncDecl, info *types.Info) (*codedDFA, error) {
	c := &codedDFA{fd: fd, info: info}
	for _, f := range fd.Type.Params.List {
		for _, n := range f.Names {
			c.params = append(c.params, info.Defs[n])
		}
	}
	if len(c.params) != 2 {
		return nil, fmt.Errorf("%s: expected 2 parameters", fd.Name.Name)
	}
	seen := map[int64]bool{}
	ast.Inspect(fd.Body, func(n ast.Node) bool {
		if e, ok := n.(ast.Expr); ok {
			if tv, ok := info.Types[e]; ok && tv.Value != nil && tv.Value.Kind() == constant.Int {
				if v, ok := constant.Int64Val(tv.Value); ok && !seen[v] {
					seen[v] = true
					c.consts = append(c.consts, v)
				}
			}
		}
		return true
	})
	return c, nil
}

func (c *codedDFA) step(s, r int64) (int64, error) {
	v, err := callFunc(c.fd, c.info, cval{k: 'i', i: s}, cval{k: 'i', i: r})
	if err != nil || len(v) != 1 || v[0].k != 'i' {
		return 0, fmt.Errorf("%s(%d,%d): function shape not interpretable", c.fd.Name.Name, s, r)
	}
	return v[0].i, nil
}

type LexCert struct {
	Abs       map[int64]int   // code state -> reference state
	Order     []int64         // code states in BFS order
	Path      map[int64][]int // a string leading to the code state
	Mismatch  []LexMismatch
	Depth     map[int64]int
}

type LexMismatch struct {
	State  int64
	Rune   int
	Code   int64
	Ref    int
	Prefix []int
	What   string
}

// findLexCert explores the product of the coded scanner and the reference automaton from the start states.
func findLexCert(code *codedDFA, ref *refDFA, codeStart int64) (*LexCert, error) {
	cert := &LexCert{Abs: map[int64]int{codeStart: ref.start}, Path: map[int64][]int{codeStart: nil}}
	// representative runes: every cut point of the reference, every constant of the code, and neighbours
	rep := map[int]bool{}
	add := func(r int64) {
		for _, d := range []int64{-1, 0, 1} {
			v := r + d
			if v >= 0 && v <= maxRune {
				rep[int(v)] = true
			}
		}
	}
	for _, c := range ref.cuts {
		add(int64(c))
	}
	for _, c := range code.consts {
		add(c)
	}
	add(0)
	add(maxRune)
	var reps []int
	for r := range rep {
		reps = append(reps, r)
	}
	sort.Ints(reps)
	queue := []int64{codeStart}
	cert.Order = append(cert.Order, codeStart)
	for qi := 0; qi < len(queue); qi++ {
		s := queue[qi]
		q := cert.Abs[s]
		for _, r := range reps {
			s2, err := code.step(s, int64(r))
			if err != nil {
				return nil, err
			}
			q2 := ref.step(q, r)
			pre := append(append([]int{}, cert.Path[s]...), r)
			switch {
			case s2 == -1 && q2 == -1:
			case s2 == -1 || q2 == -1:
				cert.Mismatch = append(cert.Mismatch, LexMismatch{s, r, s2, q2, pre, "one side dead"})
			default:
				if prev, ok := cert.Abs[s2]; !ok {
					cert.Abs[s2] = q2
					cert.Path[s2] = pre
					cert.Order = append(cert.Order, s2)
					queue = append(queue, s2)
				} else if prev != q2 {
					cert.Mismatch = append(cert.Mismatch, LexMismatch{s, r, s2, q2, pre, fmt.Sprintf("code state %d already maps to reference state %d", s2, prev)})
				}
			}
		}
	}
	return cert, nil
}

// smt renders absS / reachS.
func (c *LexCert) smt() string {
	var b strings.Builder
	b.WriteString("; certificate: abstraction of code states to reference states (found by product BFS; untrusted)\n")
	b.WriteString("(define-fun absS ((s Int)) Int")
	n := 0
	for _, s := range c.Order {
		fmt.Fprintf(&b, " (ite (= s %d) %d", s, c.Abs[s])
		n++
	}
	b.WriteString(" (ite (= s (- 1)) (- 1) (- 2))" + strings.Repeat(")", n) + ")\n")
	b.WriteString("(define-fun reachS ((s Int)) Bool (or")
	for _, s := range c.Order {
		fmt.Fprintf(&b, " (= s %d)", s)
	}
	b.WriteString(" false))\n")
	b.WriteString("(define-fun depthS ((s Int)) Int")
	n = 0
	for _, s := range c.Order {
		fmt.Fprintf(&b, " (ite (= s %d) %d", s, len(c.Path[s]))
		n++
	}
	b.WriteString(" 0" + strings.Repeat(")", n) + ")\n")
	return b.String()
}

func runesToString(rs []int) string {
	var b strings.Builder
	for _, r := range rs {
		b.WriteRune(rune(r))
	}
	return b.String()
}
