package main

// Certificate search for C05/C08: abstraction map from the states of a coded scanner
// (nested-switch transition function) to the states of a reference automaton.
// Untrusted: a wrong map only makes obligations fail.

import (
	"fmt"
	"go/ast"
	"go/constant"
	"go/token"
	"go/types"
	"sort"
	"strings"
)

// concreteEval interprets a loop-free function over integer arguments:
// switch / if / return with constant cases. ok=false if the shape is not supported.
type cinterp struct {
	info *types.Info
	env  map[types.Object]int64
}

func (ci *cinterp) expr(e ast.Expr) (int64, bool) {
	if tv, ok := ci.info.Types[e]; ok && tv.Value != nil {
		switch tv.Value.Kind() {
		case constant.Int:
			v, ok := constant.Int64Val(tv.Value)
			return v, ok
		case constant.Bool:
			if constant.BoolVal(tv.Value) {
				return 1, true
			}
			return 0, true
		}
	}
	switch x := ast.Unparen(e).(type) {
	case *ast.Ident:
		if o := ci.info.ObjectOf(x); o != nil {
			v, ok := ci.env[o]
			return v, ok
		}
	case *ast.BinaryExpr:
		a, ok1 := ci.expr(x.X)
		b, ok2 := ci.expr(x.Y)
		if !ok1 || !ok2 {
			return 0, false
		}
		bi := func(c bool) (int64, bool) {
			if c {
				return 1, true
			}
			return 0, true
		}
		switch x.Op {
		case token.EQL:
			return bi(a == b)
		case token.NEQ:
			return bi(a != b)
		case token.LSS:
			return bi(a < b)
		case token.LEQ:
			return bi(a <= b)
		case token.GTR:
			return bi(a > b)
		case token.GEQ:
			return bi(a >= b)
		case token.LAND:
			return bi(a != 0 && b != 0)
		case token.LOR:
			return bi(a != 0 || b != 0)
		case token.ADD:
			return a + b, true
		case token.SUB:
			return a - b, true
		}
	case *ast.UnaryExpr:
		a, ok := ci.expr(x.X)
		if !ok {
			return 0, false
		}
		switch x.Op {
		case token.NOT:
			if a == 0 {
				return 1, true
			}
			return 0, true
		case token.SUB:
			return -a, true
		}
	case *ast.CallExpr: // conversion
		if tv, ok := ci.info.Types[x.Fun]; ok && tv.IsType() && len(x.Args) == 1 {
			return ci.expr(x.Args[0])
		}
	}
	return 0, false
}

// returns (value, returned, ok)
func (ci *cinterp) stmts(list []ast.Stmt) (int64, bool, bool) {
	for _, s := range list {
		v, ret, ok := ci.stmt(s)
		if !ok || ret {
			return v, ret, ok
		}
	}
	return 0, false, true
}

func (ci *cinterp) stmt(s ast.Stmt) (int64, bool, bool) {
	switch x := s.(type) {
	case *ast.ReturnStmt:
		if len(x.Results) != 1 {
			return 0, false, false
		}
		v, ok := ci.expr(x.Results[0])
		return v, true, ok
	case *ast.BlockStmt:
		return ci.stmts(x.List)
	case *ast.IfStmt:
		if x.Init != nil {
			return 0, false, false
		}
		c, ok := ci.expr(x.Cond)
		if !ok {
			return 0, false, false
		}
		if c != 0 {
			return ci.stmts(x.Body.List)
		}
		if x.Else != nil {
			return ci.stmt(x.Else)
		}
		return 0, false, true
	case *ast.SwitchStmt:
		if x.Init != nil {
			return 0, false, false
		}
		var tag int64
		hasTag := x.Tag != nil
		if hasTag {
			var ok bool
			tag, ok = ci.expr(x.Tag)
			if !ok {
				return 0, false, false
			}
		}
		var def *ast.CaseClause
		for _, c := range x.Body.List {
			cc := c.(*ast.CaseClause)
			if cc.List == nil {
				def = cc
				continue
			}
			for _, e := range cc.List {
				v, ok := ci.expr(e)
				if !ok {
					return 0, false, false
				}
				if (hasTag && v == tag) || (!hasTag && v != 0) {
					return ci.stmts(cc.Body)
				}
			}
		}
		if def != nil {
			return ci.stmts(def.Body)
		}
		return 0, false, true
	case *ast.EmptyStmt:
		return 0, false, true
	}
	return 0, false, false
}

// codedDFA wraps a Go function (state int, r rune) int interpreted concretely.
type codedDFA struct {
	fd   *ast.FuncDecl
	info *types.Info
	params []types.Object
	consts []int64 // integer constants appearing in the function (representative symbols)
}

func newCodedDFA(fd *ast.FuncDecl, info *types.Info) (*codedDFA, error) {
	c := &codedDFA{fd: fd, info: info}
	for _, f := range fd.Type.Params.List {
		for _, n := range f.Names {
			c.params = append(c.params, info.Defs[n])
		}
	}
	if len(c.params) != 2 {
		return nil, fmt.Errorf("%s: expected 2 parameters", fd.Name.Name)
	}
	seen := map[int64]bool{}
	ast.Inspect(fd.Body, func(n ast.Node) bool {
		if e, ok := n.(ast.Expr); ok {
			if tv, ok := info.Types[e]; ok && tv.Value != nil && tv.Value.Kind() == constant.Int {
				if v, ok := constant.Int64Val(tv.Value); ok && !seen[v] {
					seen[v] = true
					c.consts = append(c.consts, v)
				}
			}
		}
		return true
	})
	return c, nil
}

func (c *codedDFA) step(s, r int64) (int64, error) {
	ci := &cinterp{info: c.info, env: map[types.Object]int64{c.params[0]: s, c.params[1]: r}}
	v, ret, ok := ci.stmts(c.fd.Body.List)
	if !ok || !ret {
		return 0, fmt.Errorf("%s(%d,%d): function shape not interpretable", c.fd.Name.Name, s, r)
	}
	return v, nil
}

type LexCert struct {
	Abs       map[int64]int   // code state -> reference state
	Order     []int64         // code states in BFS order
	Path      map[int64][]int // a string leading to the code state
	Mismatch  []LexMismatch
	Depth     map[int64]int
}

type LexMismatch struct {
	State  int64
	Rune   int
	Code   int64
	Ref    int
	Prefix []int
	What   string
}

// findLexCert explores the product of the coded scanner and the reference automaton from the start states.
func findLexCert(code *codedDFA, ref *refDFA, codeStart int64) (*LexCert, error) {
	cert := &LexCert{Abs: map[int64]int{codeStart: ref.start}, Path: map[int64][]int{codeStart: nil}}
	// representative runes: every cut point of the reference, every constant of the code, and neighbours
	rep := map[int]bool{}
	add := func(r int64) {
		for _, d := range []int64{-1, 0, 1} {
			v := r + d
			if v >= 0 && v <= maxRune {
				rep[int(v)] = true
			}
		}
	}
	for _, c := range ref.cuts {
		add(int64(c))
	}
	for _, c := range code.consts {
		add(c)
	}
	add(0)
	add(maxRune)
	var reps []int
	for r := range rep {
		reps = append(reps, r)
	}
	sort.Ints(reps)
	queue := []int64{codeStart}
	cert.Order = append(cert.Order, codeStart)
	for qi := 0; qi < len(queue); qi++ {
		s := queue[qi]
		q := cert.Abs[s]
		for _, r := range reps {
			s2, err := code.step(s, int64(r))
			if err != nil {
				return nil, err
			}
			q2 := ref.step(q, r)
			pre := append(append([]int{}, cert.Path[s]...), r)
			switch {
			case s2 == -1 && q2 == -1:
			case s2 == -1 || q2 == -1:
				cert.Mismatch = append(cert.Mismatch, LexMismatch{s, r, s2, q2, pre, "one side dead"})
			default:
				if prev, ok := cert.Abs[s2]; !ok {
					cert.Abs[s2] = q2
					cert.Path[s2] = pre
					cert.Order = append(cert.Order, s2)
					queue = append(queue, s2)
				} else if prev != q2 {
					cert.Mismatch = append(cert.Mismatch, LexMismatch{s, r, s2, q2, pre, fmt.Sprintf("code state %d already maps to reference state %d", s2, prev)})
				}
			}
		}
	}
	return cert, nil
}

// smt renders absS / reachS.
func (c *LexCert) smt() string {
	var b strings.Builder
	b.WriteString("; certificate: abstraction of code states to reference states (found by product BFS; untrusted)\n")
	b.WriteString("(define-fun absS ((s Int)) Int")
	n := 0
	for _, s := range c.Order {
		fmt.Fprintf(&b, " (ite (= s %d) %d", s, c.Abs[s])
		n++
	}
	b.WriteString(" (ite (= s (- 1)) (- 1) (- 2))" + strings.Repeat(")", n) + ")\n")
	b.WriteString("(define-fun reachS ((s Int)) Bool (or")
	for _, s := range c.Order {
		fmt.Fprintf(&b, " (= s %d)", s)
	}
	b.WriteString(" false))\n")
	b.WriteString("(define-fun depthS ((s Int)) Int")
	n = 0
	for _, s := range c.Order {
		fmt.Fprintf(&b, " (ite (= s %d) %d", s, len(c.Path[s]))
		n++
	}
	b.WriteString(" 0" + strings.Repeat(")", n) + ")\n")
	return b.String()
}

func runesToString(rs []int) string {
	var b strings.Builder
	for _, r := range rs {
		b.WriteRune(rune(r))
	}
	return b.String()
}
