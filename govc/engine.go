package main

// Engine: package loading, unit discovery, contract database, unit verification.

import (
	"fmt"
	"runtime/debug"
	"go/ast"
	"go/token"
	"go/types"
	"os"
	"path/filepath"
	"sort"
	"strings"
	"sync"

	"golang.org/x/tools/go/packages"
)

type Engine struct {
	repo      string
	allPkgs   []*packages.Package
	byPath    map[string]*packages.Package
	roots     []*packages.Package
	cfiles    []*ContractFile
	contracts map[string]*FuncContract
	fileOf    map[*FuncContract]*ContractFile
	ghostFuncs map[string]*GhostFunc
	ghostFile  map[*GhostFunc]*ContractFile
	ghostFields map[string][]*GhostField
	ghostVars map[string]*GhostVar
	ghostVarObj map[string]*types.Var
	units     map[string]*Unit
	unitByLit map[*ast.FuncLit]*Unit
	unitOrder []string
	loadErrs  []string
}

func (e *Engine) pkgByPath(p string) *packages.Package { return e.byPath[p] }
func (e *Engine) pkgByPathOr(p string, def *packages.Package) *packages.Package {
	if pk := e.byPath[p]; pk != nil {
		return pk
	}
	return def
}

func loadEngine(repo string, patterns []string, contractDirs []string) (*Engine, error) {
	e := &Engine{repo: repo, byPath: map[string]*packages.Package{}, contracts: map[string]*FuncContract{},
		fileOf: map[*FuncContract]*ContractFile{}, ghostFuncs: map[string]*GhostFunc{}, ghostFile: map[*GhostFunc]*ContractFile{},
		ghostFields: map[string][]*GhostField{}, ghostVars: map[string]*GhostVar{}, ghostVarObj: map[string]*types.Var{}, units: map[string]*Unit{}, unitByLit: map[*ast.FuncLit]*Unit{}}
	cfg := &packages.Config{Mode: packages.LoadAllSyntax, Dir: repo, BuildFlags: []string{"-tags=verif"},
		Env: append(os.Environ(), "GOFLAGS=-mod=mod", "GOPROXY=off")}
	pkgs, err := packages.Load(cfg, patterns...)
	if err != nil {
		return nil, err
	}
	e.roots = pkgs
	packages.Visit(pkgs, nil, func(p *packages.Package) {
		e.allPkgs = append(e.allPkgs, p)
		e.byPath[p.PkgPath] = p
	})
	for _, p := range pkgs {
		for _, er := range p.Errors {
			e.loadErrs = append(e.loadErrs, er.Error())
		}
	}
	// contract files inside the repository (comment-only, build tag verif)
	for _, p := range e.allPkgs {
		if len(p.GoFiles) == 0 || !strings.HasPrefix(p.GoFiles[0], repo+"/") {
			continue
		}
		dir := filepath.Dir(p.GoFiles[0])
		path := filepath.Join(dir, "zz_contracts_verif.go")
		if _, err := os.Stat(path); err == nil {
			cf, err := parseContractFile(path, p.PkgPath)
			if err != nil {
				return nil, err
			}
			e.addContractFile(cf)
		}
	}
	for _, d := range contractDirs {
		files, _ := filepath.Glob(filepath.Join(d, "*.gvc"))
		sort.Strings(files)
		for _, f := range files {
			cf, err := parseContractFile(f, "")
			if err != nil {
				return nil, err
			}
			e.addContractFile(cf)
		}
	}
	// units: every function declaration (and its closures) of the root packages, and of dependency
	// packages for which a non-assumed contract exists
	for _, p := range e.allPkgs {
		isRoot := false
		for _, r := range pkgs {
			if r == p {
				isRoot = true
			}
		}
		wanted := isRoot
		if !wanted {
			for k, fc := range e.contracts {
				if strings.HasPrefix(k, p.PkgPath+".") && !fc.Assumed && !strings.Contains(k[len(p.PkgPath)+1:], "/") {
					wanted = true
				}
			}
		}
		if wanted {
			e.discoverUnits(p, !strings.HasPrefix(firstFile(p), repo+"/"))
		}
	}
	return e, nil
}

func firstFile(p *packages.Package) string {
	if len(p.GoFiles) > 0 {
		return p.GoFiles[0]
	}
	return ""
}

func (e *Engine) addContractFile(cf *ContractFile) {
	e.cfiles = append(e.cfiles, cf)
	for _, fc := range cf.Funcs {
		if prev, dup := e.contracts[fc.Key]; dup {
			e.loadErrs = append(e.loadErrs, fmt.Sprintf("duplicate contract for %s (%s:%d and %s:%d)", fc.Key, prev.File, prev.Line, fc.File, fc.Line))
		}
		e.contracts[fc.Key] = fc
		e.fileOf[fc] = cf
	}
	for _, g := range cf.Ghosts {
		if _, dup := e.ghostFuncs[g.Name]; dup {
			e.loadErrs = append(e.loadErrs, "duplicate ghost function "+g.Name)
		}
		e.ghostFuncs[g.Name] = g
		e.ghostFile[g] = cf
	}
	for _, gv := range cf.Vars {
		e.ghostVars[gv.Name] = gv
		e.ghostVarObj[gv.Name] = types.NewVar(token.NoPos, nil, "$ghost:"+gv.Name, types.Typ[types.Int])
	}
	for _, gf := range cf.Fields {
		owner := gf.Owner
		if i := strings.LastIndex(owner, "."); i >= 0 {
			// pkgname.Type: resolve the package name through imports lazily: store under every candidate later
			pn, tn := owner[:i], owner[i+1:]
			path := cf.Imports[pn]
			if path == "" {
				for _, p := range e.allPkgs {
					if p.Name == pn {
						path = p.PkgPath
						break
					}
				}
			}
			e.ghostFields[path+"."+tn] = append(e.ghostFields[path+"."+tn], gf)
			gf.Owner = pn + "_" + tn
		} else {
			e.ghostFields[gf.PkgPath+"."+owner] = append(e.ghostFields[gf.PkgPath+"."+owner], gf)
		}
	}
	for _, a := range cf.Aliases {
		target := a[2] + "." + a[1]
		if i := strings.LastIndex(a[1], "."); i >= 0 {
			// pkgname.Type in another package (resolved through the file's imports)
			if path := cf.Imports[a[1][:i]]; path != "" {
				target = path + "." + a[1][i+1:]
			}
		}
		e.ghostFields[a[2]+"."+a[0]] = e.ghostFields[target]
	}
}

func (e *Engine) discoverUnits(p *packages.Package, external bool) {
	for _, f := range p.Syntax {
		fname := p.Fset.Position(f.Pos()).Filename
		if strings.HasSuffix(fname, "_test.go") {
			continue
		}
		for _, d := range f.Decls {
			fd, ok := d.(*ast.FuncDecl)
			if !ok || fd.Body == nil {
				continue
			}
			obj, _ := p.TypesInfo.Defs[fd.Name].(*types.Func)
			if obj == nil {
				continue
			}
			key := funcKey(obj)
			if fd.Name.Name == "init" || fd.Name.Name == "_" {
				continue
			}
			u := &Unit{Key: key, Pkg: p, Decl: fd, Sig: obj.Type().(*types.Signature), Body: fd.Body, Obj: obj, External: external}
			e.addUnit(u)
			e.discoverClosures(u, fd.Body)
		}
	}
}

func (e *Engine) addUnit(u *Unit) {
	if _, dup := e.units[u.Key]; dup {
		return
	}
	e.units[u.Key] = u
	e.unitOrder = append(e.unitOrder, u.Key)
}

func (e *Engine) discoverClosures(parent *Unit, body ast.Node) {
	n := 0
	var walk func(node ast.Node)
	walk = func(node ast.Node) {
		ast.Inspect(node, func(m ast.Node) bool {
			if fl, ok := m.(*ast.FuncLit); ok {
				n++
				sig, _ := parent.Pkg.TypesInfo.Types[fl].Type.(*types.Signature)
				u := &Unit{Key: fmt.Sprintf("%s$%d", parent.Key, n), Pkg: parent.Pkg, Lit: fl, Sig: sig, Body: fl.Body, Parent: parent, External: parent.External}
				parent.Closures = append(parent.Closures, u)
				e.addUnit(u)
				e.unitByLit[fl] = u
				e.discoverClosures(u, fl.Body)
				return false
			}
			return true
		})
	}
	walk(body)
}

// ---------- unit verification ----------

type UnitResult struct {
	Unit        string
	Obligations []*Obligation
	Assumptions []string
	Uncontracted []string
	Unsupported []string
	SpecErrors  []string
	CalledAssumed []string
	HasContract bool
	GenSecs     float64
}

func (e *Engine) generate(u *Unit) (res *UnitResult, vcOut *VC) {
	vc := newVC(e, u)
	vc.contract = e.contracts[u.Key]
	res = &UnitResult{Unit: u.Key, HasContract: vc.contract != nil}
	defer func() {
		if r := recover(); r != nil {
			res.Unsupported = append(res.Unsupported, fmt.Sprintf("engine panic in %s: %v\n%s", u.Key, r, debug.Stack()))
			vcOut = vc
		}
	}()
	if vc.contract != nil {
		vc.contract.Used = true
		vc.usedFiles[e.fileOf[vc.contract]] = true
	}
	// own package contract file is always in use (axioms about its ghost state)
	for _, cf := range e.cfiles {
		if cf.PkgPath == u.Pkg.PkgPath {
			vc.usedFiles[cf] = true
		}
	}
	vc.prepass()
	st := &State{guard: "true", vars: map[*types.Var]Term{}, names: map[string]*types.Var{}, heaps: map[string]Term{}}
	sig := u.Sig
	if sig != nil {
		if r := sig.Recv(); r != nil {
			vc.declParam(st, r)
		}
		for i := 0; i < sig.Params().Len(); i++ {
			vc.declParam(st, sig.Params().At(i))
		}
		for i := 0; i < sig.Results().Len(); i++ {
			rv := sig.Results().At(i)
			if rv.Name() != "" && rv.Name() != "_" {
				vc.namedResults = true
			}
			s := vc.U.sortOf(rv.Type())
			vc.declareVar(st, rv, Term{vc.U.zero(s), s})
			vc.resultVars = append(vc.resultVars, rv)
		}
		if tp := sig.RecvTypeParams(); tp != nil {
			_ = tp
		}
	}
	if u.Lit != nil {
		vc.declareCaptured(st)
	}
	vc.entry = st
	if vc.contract != nil {
		if len(vc.contract.Callbacks) > 0 {
			vc.cbinvVar()
		}
		for _, cb := range vc.contract.Callbacks {
			vc.callbackVar("ncalls", cb.Name)
			vc.callbackVar("lasterr", cb.Name)
			vc.callbackVar("lastres", cb.Name)
		}
		for _, n := range vc.contract.Track {
			vc.callbackVar("ncalls", n)
			vc.callbackVar("lasterr", n)
		}
	}
	for pu := u.Parent; pu != nil; pu = pu.Parent {
		if pc := e.contracts[pu.Key]; pc != nil {
			for _, cb := range pc.Callbacks {
				vc.callbackVar("ncalls", cb.Name)
				vc.callbackVar("lasterr", cb.Name)
				vc.callbackVar("lastres", cb.Name)
			}
		}
	}
	vc.entry = st.clone()
	if vc.contract != nil {
		for _, r := range vc.contract.Requires {
			t := vc.specIn(st, r)
			vc.assume(st, t.S)
		}
		for _, r := range vc.contract.Captures {
			t := vc.specIn(st, r)
			vc.assume(st, t.S)
		}
		for _, r := range vc.contract.Assumes {
			t := vc.specIn(st, r)
			vc.assume(st, t.S)
			lbl := r.Label
			if lbl == "" {
				lbl = "LEMMA"
			}
			vc.note(fmt.Sprintf("A-%s<%s>: precondition assumed by stated lemma, not checked at call sites: %s", lbl, shortKey(u.Key), r.Text))
		}
		vc.entry.guard = st.guard
		// vacuity probe: the precondition must be satisfiable
		probe := &Obligation{Name: u.Key + "#vacuity[requires]", Kind: "vacuity", Unit: u.Key, Pos: vc.position(u.Body.Pos()),
			Desc: "precondition and type invariants are satisfiable (must NOT be provable false)", NFacts: len(vc.facts), Guard: st.guard, Goal: "false", vc: vc, MustFail: true}
		vc.obls = append(vc.obls, probe)
		if vc.contract.Decreases != nil {
			v := vc.specIn(st, vc.contract.Decreases)
			vc.entryVariant = vc.bind("variant", v).S
		}
	}
	end := vc.execBlock(st, u.Body.List)
	if !end.dead {
		var res []Term
		for _, rv := range vc.resultVars {
			res = append(res, vc.readVar(end, rv))
		}
		vc.exits = append(vc.exits, &exitRec{st: end, results: res, pos: u.Body.Rbrace})
	}
	vc.finish()
	for _, o := range vc.obls {
		res.Obligations = append(res.Obligations, o)
	}
	for a := range vc.assumptions {
		res.Assumptions = append(res.Assumptions, a)
	}
	sort.Strings(res.Assumptions)
	for a := range vc.uncontracted {
		res.Uncontracted = append(res.Uncontracted, a)
	}
	sort.Strings(res.Uncontracted)
	for a := range vc.calledAssumed {
		res.CalledAssumed = append(res.CalledAssumed, a)
	}
	sort.Strings(res.CalledAssumed)
	res.Unsupported = append(res.Unsupported, vc.unsupported...)
	res.SpecErrors = vc.specErrors
	return res, vc
}

func (vc *VC) declParam(st *State, p *types.Var) {
	s := vc.U.sortOf(p.Type())
	name := p.Name()
	if name == "" || name == "_" {
		name = "p"
	}
	t := vc.fresh(name, s)
	vc.typeInvariant(st, t)
	if s.Kind == KRef {
		// a pointer the caller holds refers to an object allocated before the call
		vc.facts = append(vc.facts, "(<= "+t.S+" "+vc.allocCounter(st)+")")
	}
	if vc.cellVars[p] {
		ref := vc.newRef(st)
		vc.storeRef(st, ref, s, t.S)
		vc.declareVar(st, p, Term{ref, &Sort{Kind: KRef, Name: "Int", Elem: s}})
		return
	}
	vc.declareVar(st, p, t)
}

// prepass: address-taken locals become heap cells; loop ordinals in source order.
func (vc *VC) prepass() {
	vc.loopIndex = map[ast.Node]int{}
	n := 0
	var walk func(node ast.Node, top bool)
	walk = func(node ast.Node, top bool) {
		ast.Inspect(node, func(m ast.Node) bool {
			switch x := m.(type) {
			case *ast.FuncLit:
				if x != vc.unit.Lit {
					// variables assigned inside a nested closure are shared with it: make them cells
					ast.Inspect(x.Body, func(k ast.Node) bool {
						switch a := k.(type) {
						case *ast.AssignStmt:
							for _, l := range a.Lhs {
								if id, ok := ast.Unparen(l).(*ast.Ident); ok {
									if v, ok := vc.info.Uses[id].(*types.Var); ok && !v.IsField() && v.Pos() < x.Pos() && v.Parent() != v.Pkg().Scope() {
										vc.cellVars[v] = true
									}
								}
							}
						case *ast.IncDecStmt:
							if id, ok := ast.Unparen(a.X).(*ast.Ident); ok {
								if v, ok := vc.info.Uses[id].(*types.Var); ok && !v.IsField() && v.Pos() < x.Pos() && v.Parent() != v.Pkg().Scope() {
									vc.cellVars[v] = true
								}
							}
						}
						return true
					})
					return false
				}
			case *ast.ForStmt, *ast.RangeStmt:
				vc.loopIndex[m] = n
				n++
			case *ast.UnaryExpr:
				if x.Op == token.AND {
					if id, ok := ast.Unparen(x.X).(*ast.Ident); ok {
						if v, ok := vc.info.ObjectOf(id).(*types.Var); ok && !v.IsField() {
							if v.Pkg() == nil || v.Parent() != v.Pkg().Scope() {
								vc.cellVars[v] = true
							}
						}
					}
				}
			}
			return true
		})
	}
	walk(vc.unit.Body, true)
	vc.escapeAnalysis()
	// in a closure unit, captured variables that the closure itself assigns are NOT cells here (their
	// initial value is an arbitrary symbol; effects on the parent are the parent's concern)
	if vc.unit.Lit != nil {
		for v := range vc.cellVars {
			if v.Pos() < vc.unit.Lit.Pos() || v.Pos() > vc.unit.Lit.End() {
				delete(vc.cellVars, v)
			}
		}
	}
}

// finish: merge exits, run deferred calls, assert postconditions.
func (vc *VC) finish() {
	if len(vc.exits) == 0 {
		return
	}
	var states []*State
	for _, ex := range vc.exits {
		states = append(states, ex.st)
	}
	nres := 0
	if vc.unit.Sig != nil {
		nres = vc.unit.Sig.Results().Len()
	}
	final := vc.merge(states...)
	results := make([]Term, nres)
	for i := 0; i < nres; i++ {
		s := vc.U.sortOf(vc.unit.Sig.Results().At(i).Type())
		if len(vc.exits) == 1 {
			results[i] = vc.exits[0].results[i]
			continue
		}
		expr := vc.exits[len(vc.exits)-1].results[i].S
		for j := len(vc.exits) - 2; j >= 0; j-- {
			expr = sIte(vc.exits[j].st.guard, vc.exits[j].results[i].S, expr)
		}
		r := vc.fresh(fmt.Sprintf("result%d", i), s)
		vc.facts = append(vc.facts, sEq(r.S, expr))
		results[i] = r
	}
	// deferred calls (LIFO) run on every exit; only contract-bound calls are meaningful
	for i := len(vc.defers) - 1; i >= 0; i-- {
		vc.evalMulti(final, vc.defers[i], false)
	}
	vc.finalState = final
	vc.finalResults = results
	if vc.contract == nil {
		return
	}
	vc.frameObligations(final)
	ctx := vc.newSpecCtx(vc.contract, final, vc.entry)
	ctx.typeArgs = vc.unitTypeArgs
	vc.bindOwnParams(ctx)
	// parameters in postconditions denote their entry values
	if vc.unit.Sig != nil {
		ps := vc.unit.Sig.Params()
		for i := 0; i < ps.Len(); i++ {
			p := ps.At(i)
			if t, ok := vc.entry.vars[p]; ok && p.Name() != "" && p.Name() != "_" && !vc.cellVars[p] {
				ctx.vars[p.Name()] = t
				// except a slice parameter the contract declares as mutated in place (`modifies s`): there the name
				// denotes what the caller's slice holds at exit, and old(s) what was passed
				for _, m := range vc.contract.Modifies {
					if id, ok := m.Expr.(*SIdent); ok && id.Name == p.Name() && t.Sort != nil && t.Sort.Kind == KSlice {
						if cur, ok := final.vars[p]; ok {
							ctx.vars[p.Name()] = cur
							if ctx.oldVars == nil {
								ctx.oldVars = map[string]Term{}
							}
							ctx.oldVars[p.Name()] = t
						}
					}
				}
			}
		}
		if r := vc.unit.Sig.Recv(); r != nil {
			if t, ok := vc.entry.vars[r]; ok && r.Name() != "" && !vc.cellVars[r] {
				ctx.vars[r.Name()] = t
			}
		}
	}
	for i, r := range results {
		ctx.vars[fmt.Sprintf("result%d", i)] = r
		if n := vc.unit.Sig.Results().At(i).Name(); n != "" && n != "_" {
			ctx.vars[n] = r
		}
	}
	if nres >= 1 {
		ctx.vars["result"] = results[0]
	}
	type postClause struct {
		cl   *Clause
		name string
	}
	var posts []postClause
	for k, en := range vc.contract.Ensures {
		posts = append(posts, postClause{en, "post[" + clauseID(en, k) + "]"})
	}
	for k, en := range vc.contract.InternalEnsures {
		posts = append(posts, postClause{en, "post-int[" + clauseID(en, k) + "]"})
	}
	for _, pc := range posts {
		en, name := pc.cl, pc.name
		t := ctx.tr(en.Expr)
		if len(vc.contract.Splits) == 0 {
			o := &Obligation{Name: vc.unit.Key + "#" + name, Kind: "post", Unit: vc.unit.Key, Pos: token.Position{Filename: en.File, Line: en.Line},
				Desc: "ensures " + en.Text, NFacts: len(vc.facts), Guard: final.guard, Goal: t.S, vc: vc}
			vc.obls = append(vc.obls, o)
			continue
		}
		sp := vc.contract.Splits[0]
		sv := ctx.trIdent(sp.Var)
		mk := func(tag string, hyp string) {
			o := &Obligation{Name: fmt.Sprintf("%s#%s{%s}", vc.unit.Key, name, tag), Kind: "post", Unit: vc.unit.Key, Pos: token.Position{Filename: en.File, Line: en.Line},
				Desc: "ensures " + en.Text + " [case " + tag + "]", NFacts: len(vc.facts), Guard: final.guard, Goal: t.S, vc: vc, Extra: []string{hyp}}
			vc.obls = append(vc.obls, o)
		}
		for v := sp.Lo; v <= sp.Hi; v++ {
			mk(fmt.Sprintf("%s=%d", sp.Var, v), sEq(sv.S, sInt(int64(v))))
		}
		mk(fmt.Sprintf("%s<%d", sp.Var, sp.Lo), "(< "+sv.S+" "+sInt(int64(sp.Lo))+")")
		mk(fmt.Sprintf("%s>%d", sp.Var, sp.Hi), "(> "+sv.S+" "+sInt(int64(sp.Hi))+")")
	}
	// vacuity probe at exit: the contract must not make every exit unreachable
	if !final.dead {
		probe := &Obligation{Name: vc.unit.Key + "#vacuity[exit]", Kind: "vacuity", Unit: vc.unit.Key, Pos: vc.position(vc.unit.Body.Rbrace),
			Desc: "some exit is reachable under the contract (must NOT be provable false)", NFacts: len(vc.facts), Guard: final.guard, Goal: "false", vc: vc, MustFail: true}
		vc.obls = append(vc.obls, probe)
	}
}

// ---------- discharge ----------

var qmuR sync.Mutex

func dischargeAll(obls []*Obligation, o solveOpts, workers int, keepDir string) {
	var wg sync.WaitGroup
	ch := make(chan *Obligation)
	queries := map[*Obligation]string{}
	for _, ob := range obls {
		queries[ob] = ob.query()
	}
	for i := 0; i < workers; i++ {
		wg.Add(1)
		go func() {
			defer wg.Done()
			for ob := range ch {
				if ob.Goal == "true" && !ob.MustFail {
					ob.Result = SolveResult{Verdict: Proved, Backend: "trivial"}
					continue
				}
				oo := o
				oo.KeepDir = keepDir
				if ob.MustFail {
					if oo.TimeoutS > 3 {
						oo.TimeoutS = 3
					}
					oo.KeepDir = ""
				}
				qmuR.Lock()
				q := queries[ob]
				qmuR.Unlock()
				ob.Result = solve(ob.Name, q, oo)
			}
		}()
	}
	for _, ob := range obls {
		ch <- ob
	}
	close(ch)
	wg.Wait()
	// second chance under light load: a query that timed out while 3 x workers solver processes shared the
	// cores is retried with a few workers and a longer time-out, so that a slow-but-provable obligation does
	// not turn into a false alarm. Capped: a tree with many failing obligations is not retried wholesale.
	var retry []*Obligation
	for _, ob := range obls {
		if !ob.MustFail && !ob.NoRetry && ob.Result.Verdict == Unknown && (strings.Contains(ob.Result.Output, "timeout") || ob.Result.Secs >= 0.8*float64(o.TimeoutS)) {
			retry = append(retry, ob)
		}
	}
	if len(retry) == 0 || len(retry) > 24 {
		return
	}
	ch2 := make(chan *Obligation)
	var wg2 sync.WaitGroup
	for i := 0; i < 3; i++ {
		wg2.Add(1)
		go func() {
			defer wg2.Done()
			for ob := range ch2 {
				oo := o
				oo.KeepDir = keepDir
				oo.TimeoutS = o.TimeoutS * 4
				oo.AllSeeds = true
				first := ob.Result.Secs
				r := solve(ob.Name, queries[ob], oo)
				r.Secs += first
				ob.Result = r
			}
		}()
	}
	for _, ob := range retry {
		ch2 <- ob
	}
	close(ch2)
	wg2.Wait()
}


// escapeAnalysis: a local variable is non-escaping if it is only ever defined once and used as the
// receiver of method calls (never passed, stored, captured, compared or reassigned).
func (vc *VC) escapeAnalysis() {
	uses := map[*types.Var]int{}
	okUses := map[*types.Var]int{}
	defs := map[*types.Var]int{}
	inClosure := map[*types.Var]bool{}
	var walk func(n ast.Node, closure bool)
	walk = func(n ast.Node, closure bool) {
		ast.Inspect(n, func(m ast.Node) bool {
			switch x := m.(type) {
			case *ast.FuncLit:
				if x != vc.unit.Lit {
					walk(x.Body, true)
					return false
				}
			case *ast.AssignStmt:
				for _, l := range x.Lhs {
					if id, ok := l.(*ast.Ident); ok {
						if v, ok := vc.info.ObjectOf(id).(*types.Var); ok {
							defs[v]++
						}
					}
				}
			case *ast.CallExpr:
				if sel, ok := x.Fun.(*ast.SelectorExpr); ok {
					if id, ok := sel.X.(*ast.Ident); ok {
						if v, ok := vc.info.Uses[id].(*types.Var); ok {
							if s, ok := vc.info.Selections[sel]; ok && s.Kind() == types.MethodVal {
								okUses[v]++
							}
						}
					}
				}
			case *ast.Ident:
				if v, ok := vc.info.Uses[x].(*types.Var); ok {
					uses[v]++
					if closure {
						inClosure[v] = true
					}
				}
			}
			return true
		})
	}
	walk(vc.unit.Body, false)
	for v, d := range defs {
		if d == 1 && uses[v] == okUses[v] && !inClosure[v] && !vc.cellVars[v] {
			vc.nonEscaping[v] = true
		}
	}
}


// declareCaptured: variables of the enclosing function used inside a function literal are inputs of the
// literal's unit (arbitrary values constrained only by its `captures`/`requires` clauses).
func (vc *VC) declareCaptured(st *State) {
	lit := vc.unit.Lit
	seen := map[*types.Var]bool{}
	var order []*types.Var
	ast.Inspect(lit.Body, func(n ast.Node) bool {
		id, ok := n.(*ast.Ident)
		if !ok {
			return true
		}
		v, ok := vc.info.Uses[id].(*types.Var)
		if !ok || v.IsField() || seen[v] {
			return true
		}
		if v.Pkg() == nil || v.Parent() == v.Pkg().Scope() {
			return true // package-level
		}
		if v.Pos() >= lit.Pos() && v.Pos() <= lit.End() {
			return true // local of the literal (or its parameter)
		}
		seen[v] = true
		order = append(order, v)
		return true
	})
	sort.Slice(order, func(i, j int) bool { return order[i].Pos() < order[j].Pos() })
	for _, v := range order {
		t := vc.fresh("cap_"+v.Name(), vc.U.sortOf(v.Type()))
		vc.typeInvariant(st, t)
		vc.declareVar(st, v, t)
	}
}


func clauseID(c *Clause, ord int) string {
	if c.Label != "" {
		return c.Label
	}
	return fmt.Sprint(ord)
}
