package main

// Symbolic execution of statements.

import (
	"fmt"
	"go/ast"
	"go/token"
	"go/types"
	"sort"
	"strings"
)

func (vc *VC) execBlock(st *State, stmts []ast.Stmt) *State {
	saved := make(map[string]*types.Var, len(st.names))
	for k, v := range st.names {
		saved[k] = v
	}
	for _, s := range stmts {
		if st.dead {
			break
		}
		st = vc.execStmt(st, s)
	}
	if !st.dead {
		st.names = saved
	}
	return st
}

func (vc *VC) kill(st *State) *State {
	st.dead = true
	return st
}

func (vc *VC) execStmt(st *State, s ast.Stmt) *State {
	if st.dead {
		return st
	}
	switch x := s.(type) {
	case *ast.BlockStmt:
		return vc.execBlock(st, x.List)
	case *ast.EmptyStmt:
		return st
	case *ast.ExprStmt:
		vc.evalMulti(st, x.X, false)
		return st
	case *ast.AssignStmt:
		return vc.execAssign(st, x)
	case *ast.IncDecStmt:
		cur := vc.eval(st, x.X)
		op := "+"
		if x.Tok == token.DEC {
			op = "-"
		}
		r := vc.arithResult(st, Term{"(" + op + " " + cur.S + " 1)", cur.Sort}, x)
		vc.assignTo(st, x.X, r)
		return st
	case *ast.DeclStmt:
		gd, ok := x.Decl.(*ast.GenDecl)
		if !ok || gd.Tok != token.VAR {
			return st // const/type declarations need no execution
		}
		for _, sp := range gd.Specs {
			vs := sp.(*ast.ValueSpec)
			if len(vs.Values) == 1 && len(vs.Names) > 1 {
				vals := vc.evalMulti(st, vs.Values[0], true)
				for i, n := range vs.Names {
					vc.declLocal(st, n, vals[i])
				}
				continue
			}
			for i, n := range vs.Names {
				v, _ := vc.info.Defs[n].(*types.Var)
				if v == nil {
					continue
				}
				sv := vc.U.sortOf(v.Type())
				var val Term
				if i < len(vs.Values) {
					val = vc.convertTo(vc.eval(st, vs.Values[i]), v.Type())
				} else {
					val = Term{vc.U.zero(sv), sv}
				}
				vc.declLocal(st, n, val)
			}
		}
		return st
	case *ast.IfStmt:
		return vc.execIf(st, x)
	case *ast.SwitchStmt:
		return vc.execSwitch(st, x)
	case *ast.TypeSwitchStmt:
		return vc.execTypeSwitch(st, x)
	case *ast.ForStmt:
		return vc.execFor(st, x)
	case *ast.RangeStmt:
		return vc.execRange(st, x)
	case *ast.ReturnStmt:
		return vc.execReturn(st, x)
	case *ast.BranchStmt:
		return vc.execBranch(st, x)
	case *ast.LabeledStmt:
		vc.pendingLabel = x.Label.Name
		return vc.execStmt(st, x.Stmt)
	case *ast.DeferStmt:
		vc.defers = append(vc.defers, x.Call)
		return st
	case *ast.GoStmt:
		vc.unsupportedf(x, "go statement")
		return st
	}
	vc.unsupportedf(s, "statement %T", s)
	return st
}

func (vc *VC) declLocal(st *State, id *ast.Ident, val Term) {
	v, _ := vc.info.Defs[id].(*types.Var)
	if v == nil {
		if id.Name == "_" {
			return
		}
		// redeclaration in := uses the existing object
		if o, ok := vc.info.Uses[id].(*types.Var); ok {
			vc.writeVar(st, o, vc.convertTo(val, o.Type()))
		}
		return
	}
	val = vc.convertTo(val, v.Type())
	isZeroVal := val.Sort != nil && val.S == vc.U.zero(val.Sort)
	val = vc.bind(v.Name(), val)
	if vc.freshResult[val.S] && vc.nonEscaping[v] {
		vc.owned = append(vc.owned, val)
	}
	if vc.cellVars[v] {
		ref := vc.newRef(st)
		vc.storeRef(st, ref, val.Sort, val.S)
		vc.declareVar(st, v, Term{ref, &Sort{Kind: KRef, Name: "Int", Elem: val.Sort}})
		// `var b T` (zero value): ghost fields declared zeroinit start at their zero value
		if _, isStruct := v.Type().Underlying().(*types.Struct); isStruct && isZeroVal {
			ps := vc.U.sortOf(types.NewPointer(v.Type()))
			if n := namedOf(ps.GoT); n != nil && n.Obj().Pkg() != nil {
				for _, gf := range vc.eng.ghostFields[n.Obj().Pkg().Path()+"."+n.Obj().Name()] {
					if gf.ZeroInit {
						c := vc.newSpecCtx(nil, st, st)
						t := c.ghostFieldRead(st, Term{ref, ps}, gf)
						vc.assume(st, sEq(t.S, vc.U.zero(t.Sort)))
					}
				}
			}
		}
		return
	}
	vc.declareVar(st, v, val)
}

func (vc *VC) execAssign(st *State, x *ast.AssignStmt) *State {
	// compound assignment
	if x.Tok != token.ASSIGN && x.Tok != token.DEFINE {
		opMap := map[token.Token]token.Token{token.ADD_ASSIGN: token.ADD, token.SUB_ASSIGN: token.SUB, token.MUL_ASSIGN: token.MUL,
			token.QUO_ASSIGN: token.QUO, token.REM_ASSIGN: token.REM, token.AND_ASSIGN: token.AND, token.OR_ASSIGN: token.OR,
			token.XOR_ASSIGN: token.XOR, token.SHL_ASSIGN: token.SHL, token.SHR_ASSIGN: token.SHR, token.AND_NOT_ASSIGN: token.AND_NOT}
		be := &ast.BinaryExpr{X: x.Lhs[0], Op: opMap[x.Tok], Y: x.Rhs[0], OpPos: x.TokPos}
		// type info for the synthetic node: same as lhs
		if tv, ok := vc.info.Types[x.Lhs[0]]; ok {
			vc.info.Types[be] = types.TypeAndValue{Type: tv.Type}
		}
		r := vc.evalBinary(st, be)
		vc.assignTo(st, x.Lhs[0], r)
		return st
	}
	var vals []Term
	if len(x.Rhs) == 1 && len(x.Lhs) > 1 {
		vals = vc.evalMulti(st, x.Rhs[0], true)
		if len(vals) < len(x.Lhs) {
			vc.unsupportedf(x, "tuple assignment arity")
			return st
		}
	} else {
		for _, r := range x.Rhs {
			vals = append(vals, vc.eval(st, r))
		}
	}
	for i, l := range x.Lhs {
		if x.Tok == token.DEFINE {
			if id, ok := l.(*ast.Ident); ok {
				vc.declLocal(st, id, vals[i])
				continue
			}
		}
		vc.assignTo(st, l, vals[i])
	}
	return st
}

// assignTo stores a value into an lvalue expression.
func (vc *VC) assignTo(st *State, l ast.Expr, val Term) {
	switch x := ast.Unparen(l).(type) {
	case *ast.Ident:
		if x.Name == "_" {
			return
		}
		if v, ok := vc.info.ObjectOf(x).(*types.Var); ok {
			val = vc.convertTo(val, v.Type())
			val = vc.bind(v.Name(), val)
			vc.writeVar(st, v, val)
			return
		}
	case *ast.StarExpr:
		p := vc.eval(st, x.X)
		vc.assert(st, "nil", sNot(sEq(p.S, "0")), x.Pos(), "nil dereference (store)")
		val = vc.convertTo(val, vc.typeOf(l))
		vc.storeRef(st, p.S, p.Sort.Elem, val.S)
		return
	case *ast.SelectorExpr:
		sel, ok := vc.info.Selections[x]
		if ok && sel.Kind() == types.FieldVal {
			val = vc.convertTo(val, sel.Type())
			vc.assignPath(st, x.X, sel.Recv(), sel.Index(), val, x)
			return
		}
		if id, ok := x.X.(*ast.Ident); ok {
			if _, isPkg := vc.info.ObjectOf(id).(*types.PkgName); isPkg {
				if v, ok := vc.info.ObjectOf(x.Sel).(*types.Var); ok {
					vc.writeVar(st, v, vc.convertTo(val, v.Type()))
					return
				}
			}
		}
	case *ast.IndexExpr:
		base := vc.eval(st, x.X)
		switch base.Sort.Kind {
		case KSlice:
			i := vc.eval(st, x.Index)
			vc.assert(st, "bounds", "(and (<= 0 "+i.S+") (< "+i.S+" "+vc.sliceLen(base)+"))", x.Pos(), "slice index in range (store)")
			val = vc.convertTo(val, vc.typeOf(l))
			nv := Term{"(mk_" + base.Sort.Name + " (store " + vc.sliceArr(base) + " " + i.S + " " + val.S + ") " + vc.sliceLen(base) + ")", base.Sort}
			vc.noteAlias(x.X, "element store")
			vc.assignTo(st, x.X, nv)
			return
		case KArr:
			i := vc.eval(st, x.Index)
			vc.assert(st, "bounds", fmt.Sprintf("(and (<= 0 %s) (< %s %d))", i.S, i.S, base.Sort.Len), x.Pos(), "array index in range (store)")
			val = vc.convertTo(val, vc.typeOf(l))
			vc.assignTo(st, x.X, Term{"(store " + base.S + " " + i.S + " " + val.S + ")", base.Sort})
			return
		case KMap:
			mt := base.Sort.GoT.Underlying().(*types.Map)
			k := vc.convertTo(vc.eval(st, x.Index), mt.Key())
			val = vc.convertTo(val, mt.Elem())
			vc.assert(st, "mapnil", sNot(sEq(base.S, "0")), x.Pos(), "assignment to entry in nil map")
			vc.mapStore(st, base, k.S, val.S)
			return
		}
	}
	vc.unsupportedf(l, "assignment target %T", l)
}

func (vc *VC) mapStore(st *State, m Term, k, v string) {
	dn, ds, vn, vs := mapHeapNames(m.Sort)
	dom := vc.heapGet(st, dn, ds, nil)
	val := vc.heapGet(st, vn, vs, nil)
	vc.heapSet(st, dn, vc.bindHeap(dn, "(store " + dom.S + " " + m.S + " (store (select " + dom.S + " " + m.S + ") " + k + " true))"))
	vc.heapSet(st, vn, vc.bindHeap(vn, "(store " + val.S + " " + m.S + " (store (select " + val.S + " " + m.S + ") " + k + " " + v + "))"))
}

func (vc *VC) noteAlias(e ast.Expr, what string) {
	// slices are values in the model: a store/append through a slice that is not a local built here may alias
	if id, ok := ast.Unparen(e).(*ast.Ident); ok {
		if v, ok := vc.info.ObjectOf(id).(*types.Var); ok && v.Parent() != nil && v.Pkg() != nil && v.Parent() != v.Pkg().Scope() && !v.IsField() {
			return // local variable
		}
	}
	vc.note("A-ALIAS<" + vc.position(e.Pos()).String() + ">: " + what + " through a non-local slice")
}

// assignPath writes val into base.path (struct value rebuilt functionally, pointers through the heap).
func (vc *VC) assignPath(st *State, baseExpr ast.Expr, recv types.Type, path []int, val Term, n ast.Node) {
	if len(path) == 0 {
		vc.assignTo(st, baseExpr, val)
		return
	}
	// find the last pointer hop: everything before it is evaluated, after it rebuilt
	base := vc.eval(st, baseExpr)
	ct := recv
	cur := base
	// walk to determine if any pointer is on the path
	var hops []hop
	for _, idx := range path {
		hops = append(hops, hop{ct, idx})
		el, _ := derefType(ct)
		ct = el.Underlying().(*types.Struct).Field(idx).Type()
	}
	// locate last pointer-typed container
	lastPtr := -1
	for i, h := range hops {
		if _, isPtr := derefType(h.t); isPtr {
			lastPtr = i
		}
	}
	if lastPtr >= 0 {
		// evaluate up to the pointer container
		ct = recv
		for i := 0; i < lastPtr; i++ {
			cur = vc.selectPath(st, cur, ct, []int{hops[i].idx}, n)
			el, _ := derefType(ct)
			ct = el.Underlying().(*types.Struct).Field(hops[i].idx).Type()
		}
		ptr := cur
		el, _ := derefType(hops[lastPtr].t)
		ss := vc.U.sortOf(el)
		vc.assert(st, "nil", sNot(sEq(ptr.S, "0")), n.Pos(), "nil dereference (field store)")
		f := &ss.Fields[hops[lastPtr].idx]
		if lastPtr == len(hops)-1 {
			vc.storeField(st, ptr.S, ss, f, val.S)
			return
		}
		old := vc.loadField(st, ptr.S, ss, f)
		nv := vc.rebuild(old, hops[lastPtr+1:], val)
		vc.storeField(st, ptr.S, ss, f, nv.S)
		return
	}
	// pure value path: rebuild and assign to base expression
	nv := vc.rebuild(base, hops, val)
	vc.assignTo(st, baseExpr, nv)
}

type hop struct {
	t   types.Type
	idx int
}

func (vc *VC) rebuild(base Term, hops []hop, val Term) Term {
	if len(hops) == 0 {
		return val
	}
	ss := base.Sort
	parts := make([]string, len(ss.Fields))
	for i, f := range ss.Fields {
		parts[i] = "(" + f.Sel + " " + base.S + ")"
	}
	f := ss.Fields[hops[0].idx]
	inner := vc.rebuild(Term{"(" + f.Sel + " " + base.S + ")", f.Sort}, hops[1:], val)
	parts[hops[0].idx] = inner.S
	s := "(mk_" + ss.Name
	for _, p := range parts {
		s += " " + p
	}
	return Term{s + ")", ss}
}

func (vc *VC) execIf(st *State, x *ast.IfStmt) *State {
	saved := copyNames(st.names)
	if x.Init != nil {
		st = vc.execStmt(st, x.Init)
	}
	c := vc.eval(st, x.Cond)
	thenSt := st.clone()
	elseSt := st
	vc.assume(thenSt, c.S)
	vc.assume(elseSt, sNot(c.S))
	thenSt = vc.execBlock(thenSt, x.Body.List)
	if x.Else != nil {
		elseSt = vc.execStmt(elseSt, x.Else)
	}
	m := vc.merge(thenSt, elseSt)
	if !m.dead {
		m.names = saved
	}
	return m
}

func copyNames(m map[string]*types.Var) map[string]*types.Var {
	n := make(map[string]*types.Var, len(m))
	for k, v := range m {
		n[k] = v
	}
	return n
}

func (vc *VC) pushCtl(isLoop bool) *ctlFrame {
	f := &ctlFrame{label: vc.pendingLabel, isLoop: isLoop}
	vc.pendingLabel = ""
	vc.ctl = append(vc.ctl, f)
	return f
}

func (vc *VC) popCtl() { vc.ctl = vc.ctl[:len(vc.ctl)-1] }

func (vc *VC) execSwitch(st *State, x *ast.SwitchStmt) *State {
	saved := copyNames(st.names)
	frame := vc.pushCtl(false)
	defer vc.popCtl()
	if x.Init != nil {
		st = vc.execStmt(st, x.Init)
	}
	var tag Term
	hasTag := x.Tag != nil
	if hasTag {
		tag = vc.eval(st, x.Tag)
		tag = vc.bind("tag", tag)
	}
	var outs []*State
	rest := st // state in which no earlier case matched
	var defaultClause *ast.CaseClause
	for _, c := range x.Body.List {
		cc := c.(*ast.CaseClause)
		if cc.List == nil {
			defaultClause = cc
			continue
		}
		var conds []string
		for _, e := range cc.List {
			v := vc.eval(rest, e)
			if hasTag {
				conds = append(conds, vc.equal(tag, v))
			} else {
				conds = append(conds, v.S)
			}
		}
		cond := sOr(conds...)
		br := rest.clone()
		vc.assume(br, cond)
		vc.assume(rest, sNot(cond))
		br = vc.execBlock(br, cc.Body)
		if hasFallthrough(cc.Body) {
			vc.unsupportedf(cc, "fallthrough")
		}
		outs = append(outs, br)
	}
	if defaultClause != nil {
		rest = vc.execBlock(rest, defaultClause.Body)
	}
	outs = append(outs, rest)
	outs = append(outs, frame.breaks...)
	m := vc.merge(outs...)
	if !m.dead {
		m.names = saved
	}
	return m
}

func hasFallthrough(body []ast.Stmt) bool {
	if len(body) == 0 {
		return false
	}
	b, ok := body[len(body)-1].(*ast.BranchStmt)
	return ok && b.Tok == token.FALLTHROUGH
}

func (vc *VC) execTypeSwitch(st *State, x *ast.TypeSwitchStmt) *State {
	saved := copyNames(st.names)
	frame := vc.pushCtl(false)
	defer vc.popCtl()
	if x.Init != nil {
		st = vc.execStmt(st, x.Init)
	}
	var guardExpr ast.Expr
	var bindName *ast.Ident
	switch a := x.Assign.(type) {
	case *ast.ExprStmt:
		guardExpr = a.X.(*ast.TypeAssertExpr).X
	case *ast.AssignStmt:
		guardExpr = a.Rhs[0].(*ast.TypeAssertExpr).X
		bindName = a.Lhs[0].(*ast.Ident)
	}
	v := vc.eval(st, guardExpr)
	v = vc.bind("tsw", v)
	var outs []*State
	rest := st
	var defaultClause *ast.CaseClause
	for _, c := range x.Body.List {
		cc := c.(*ast.CaseClause)
		if cc.List == nil {
			defaultClause = cc
			continue
		}
		var conds []string
		var single types.Type
		for _, e := range cc.List {
			t := vc.typeOf(e)
			if id, ok := e.(*ast.Ident); ok && id.Name == "nil" {
				conds = append(conds, sEq(v.S, "anynil"))
				continue
			}
			ts := vc.U.sortOf(t)
			if ts.Kind == KAny {
				pred := "impl_" + smtName(shortTypeName(t))
				vc.U.ensureFun(pred, "(Int) Bool")
				conds = append(conds, sAnd(sNot(sEq(v.S, "anynil")), "("+pred+" (dyn "+v.S+"))"))
			} else {
				conds = append(conds, fmt.Sprintf("(= (dyn %s) %d)", v.S, vc.U.typeID(t)))
			}
			single = t
		}
		cond := sOr(conds...)
		br := rest.clone()
		vc.assume(br, cond)
		vc.assume(rest, sNot(cond))
		if bindName != nil {
			if obj, ok := vc.info.Implicits[cc].(*types.Var); ok {
				var bound Term
				if len(cc.List) == 1 && single != nil {
					ts := vc.U.sortOf(single)
					if ts.Kind == KAny {
						bound = Term{v.S, ts}
					} else {
						_, unbox := vc.U.boxFuncs(single, ts)
						bound = Term{"(" + unbox + " " + v.S + ")", ts}
					}
				} else {
					bound = v
				}
				vc.declareVar(br, obj, bound)
			}
		}
		br = vc.execBlock(br, cc.Body)
		outs = append(outs, br)
	}
	if defaultClause != nil {
		if bindName != nil {
			if obj, ok := vc.info.Implicits[defaultClause].(*types.Var); ok {
				vc.declareVar(rest, obj, v)
			}
		}
		rest = vc.execBlock(rest, defaultClause.Body)
	}
	outs = append(outs, rest)
	outs = append(outs, frame.breaks...)
	m := vc.merge(outs...)
	if !m.dead {
		m.names = saved
	}
	return m
}

func (vc *VC) findFrame(label string, needLoop bool) *ctlFrame {
	for i := len(vc.ctl) - 1; i >= 0; i-- {
		f := vc.ctl[i]
		if label != "" {
			if f.label == label {
				return f
			}
			continue
		}
		if needLoop && !f.isLoop {
			continue
		}
		return f
	}
	return nil
}

func (vc *VC) execBranch(st *State, x *ast.BranchStmt) *State {
	label := ""
	if x.Label != nil {
		label = x.Label.Name
	}
	switch x.Tok {
	case token.BREAK:
		f := vc.findFrame(label, false)
		if f == nil {
			vc.unsupportedf(x, "break target")
			return vc.kill(st)
		}
		f.breaks = append(f.breaks, st.clone())
		return vc.kill(st)
	case token.CONTINUE:
		f := vc.findFrame(label, true)
		if f == nil {
			vc.unsupportedf(x, "continue target")
			return vc.kill(st)
		}
		f.continues = append(f.continues, st.clone())
		return vc.kill(st)
	case token.FALLTHROUGH:
		return st
	}
	vc.unsupportedf(x, "branch %s", x.Tok)
	return vc.kill(st)
}

func (vc *VC) execReturn(st *State, x *ast.ReturnStmt) *State {
	var res []Term
	sig := vc.unit.Sig
	nres := sig.Results().Len()
	if len(x.Results) == 0 && nres > 0 {
		for _, rv := range vc.resultVars {
			res = append(res, vc.readVar(st, rv))
		}
	} else if len(x.Results) == 1 && nres > 1 {
		vals := vc.evalMulti(st, x.Results[0], false)
		for i, v := range vals {
			res = append(res, vc.convertTo(v, sig.Results().At(i).Type()))
		}
	} else {
		for i, r := range x.Results {
			v := vc.eval(st, r)
			res = append(res, vc.convertTo(v, sig.Results().At(i).Type()))
		}
	}
	if !st.dead {
		vc.exits = append(vc.exits, &exitRec{st: st.clone(), results: res, pos: x.Pos()})
	}
	return vc.kill(st)
}

// assignedVars collects variables assigned in a statement subtree (for loop havoc).
func (vc *VC) assignedVars(n ast.Node, out map[*types.Var]bool) {
	ast.Inspect(n, func(m ast.Node) bool {
		switch x := m.(type) {
		case *ast.FuncLit:
			// assignments inside closures affect captured vars only when the closure runs; be conservative
			return true
		case *ast.AssignStmt:
			for _, l := range x.Lhs {
				vc.rootVar(l, out)
			}
		case *ast.IncDecStmt:
			vc.rootVar(x.X, out)
		case *ast.RangeStmt:
			if x.Tok == token.ASSIGN {
				if x.Key != nil {
					vc.rootVar(x.Key, out)
				}
				if x.Value != nil {
					vc.rootVar(x.Value, out)
				}
			}
		}
		return true
	})
}

func (vc *VC) rootVar(e ast.Expr, out map[*types.Var]bool) {
	for {
		switch x := ast.Unparen(e).(type) {
		case *ast.Ident:
			if v, ok := vc.info.ObjectOf(x).(*types.Var); ok {
				out[v] = true
			}
			return
		case *ast.IndexExpr:
			// store into slice/array variable (value semantics) modifies the variable; through map: heap
			if _, isMap := vc.typeOf(x.X).Underlying().(*types.Map); isMap {
				return
			}
			e = x.X
		case *ast.SelectorExpr:
			if sel, ok := vc.info.Selections[x]; ok && sel.Kind() == types.FieldVal {
				if _, isPtr := derefType(sel.Recv()); isPtr || sel.Indirect() {
					return // heap write
				}
				e = x.X
				continue
			}
			if v, ok := vc.info.ObjectOf(x.Sel).(*types.Var); ok {
				out[v] = true
			}
			return
		default:
			return
		}
	}
}

// havocForLoop havocs every variable assigned in the loop and every heap (conservatively, all heaps
// that any statement or call in the loop may write).
func (vc *VC) havocForLoop(st *State, body ast.Node, extra ...ast.Node) {
	if vc.dryDepth > 0 && false {
		return
	}
	vars := map[*types.Var]bool{}
	vc.assignedVars(body, vars)
	for _, e := range extra {
		if e != nil {
			vc.assignedVars(e, vars)
		}
	}
	var vs []*types.Var
	for v := range vars {
		vs = append(vs, v)
	}
	sort.Slice(vs, func(i, j int) bool { return vs[i].Pos() < vs[j].Pos() })
	for _, v := range vs {
		if _, ok := st.vars[v]; !ok {
			if _, isGlobal := vc.heap0["$var:gv_"+v.Name()]; !isGlobal && !(v.Pkg() != nil && v.Parent() == v.Pkg().Scope()) {
				continue // declared inside the loop
			}
		}
		if vc.cellVars[v] {
			continue // lives in the heap; heaps are havocked below if written
		}
		s := vc.U.sortOf(v.Type())
		f := vc.fresh(v.Name(), s)
		vc.typeInvariant(st, f)
		st.vars[v] = f
	}
	// ghost call counters / last errors of callbacks change whenever the body calls them
	var cbs []string
	for k := range vc.cbVars {
		cbs = append(cbs, k)
	}
	sort.Strings(cbs)
	for _, k := range cbs {
		v := vc.cbVars[k]
		name := k[strings.Index(k, ":")+1:]
		if _, ok := st.vars[v]; ok && vc.callsFuncValue(body, name) {
			st.vars[v] = vc.fresh("cb", vc.U.sortOf(v.Type()))
		}
	}
	// heaps: havoc exactly those the body can write, found by a dry run of the body from an
	// all-heaps-havocked state (rolled back afterwards)
	vc.lastWritten = nil
	if vc.mayWriteHeap(body) {
		written := vc.dryRunWrites(st, body, extra)
		vc.havocHeaps(st, written)
		vc.lastWritten = written
		if written == nil {
			vc.lastWritten = map[string]bool{}
			for k := range st.heaps {
				vc.lastWritten[k] = true
			}
		}
		vc.frameAssume(st, vc.lastWritten)
	}
}

type vcSnapshot struct {
	nconsts, nfacts, nobls, nexits, ndefers, nunsup, nspecerr int
	nfresh, loopOrd, heapGen                              int
	counters                                              map[string]int
	heap0                                                 map[string]Term
	heapSorts                                             map[string]string
	ctl                                                   []ctlFrame
	pendingLabel                                          string
}

func (vc *VC) snapshot() *vcSnapshot {
	s := &vcSnapshot{nconsts: len(vc.consts), nfacts: len(vc.facts), nobls: len(vc.obls), nexits: len(vc.exits), ndefers: len(vc.defers),
		nunsup: len(vc.unsupported), nspecerr: len(vc.specErrors), nfresh: vc.nfresh, loopOrd: vc.loopOrd, heapGen: vc.heapGen,
		counters: map[string]int{}, heap0: map[string]Term{}, heapSorts: map[string]string{}, pendingLabel: vc.pendingLabel}
	for k, v := range vc.counters {
		s.counters[k] = v
	}
	for k, v := range vc.heap0 {
		s.heap0[k] = v
	}
	for k, v := range vc.heapSorts {
		s.heapSorts[k] = v
	}
	for _, f := range vc.ctl {
		s.ctl = append(s.ctl, ctlFrame{label: f.label, isLoop: f.isLoop, breaks: append([]*State{}, f.breaks...), continues: append([]*State{}, f.continues...)})
	}
	return s
}

func (vc *VC) rollback(s *vcSnapshot) {
	vc.consts = vc.consts[:s.nconsts]
	vc.facts = vc.facts[:s.nfacts]
	vc.obls = vc.obls[:s.nobls]
	vc.exits = vc.exits[:s.nexits]
	vc.defers = vc.defers[:s.ndefers]
	vc.unsupported = vc.unsupported[:s.nunsup]
	vc.specErrors = vc.specErrors[:s.nspecerr]
	vc.nfresh, vc.loopOrd, vc.heapGen = s.nfresh, s.loopOrd, s.heapGen
	vc.counters = s.counters
	vc.heap0 = s.heap0
	vc.heapSorts = s.heapSorts
	vc.pendingLabel = s.pendingLabel
	for i, f := range vc.ctl {
		if i < len(s.ctl) {
			f.breaks = s.ctl[i].breaks
			f.continues = s.ctl[i].continues
		}
	}
	vc.ctl = vc.ctl[:len(s.ctl)]
}

// dryRunWrites executes the loop body once from a state in which every heap is unknown and reports
// the heaps whose value changed on some path. Everything the run added to the VC is discarded.
func (vc *VC) dryRunWrites(st *State, body ast.Node, extra []ast.Node) map[string]bool {
	if vc.dryDepth > 3 {
		return nil // nil = everything
	}
	vc.dryDepth++
	defer func() { vc.dryDepth-- }()
	snap := vc.snapshot()
	probe := st.clone()
	vc.havocAllHeaps(probe)
	before := map[string]string{}
	for k, v := range probe.heaps {
		before[k] = v.S
	}
	frame := vc.pushCtl(true)
	var end *State
	switch b := body.(type) {
	case *ast.BlockStmt:
		end = vc.execBlock(probe.clone(), b.List)
	case ast.Stmt:
		end = vc.execStmt(probe.clone(), b)
	}
	outs := []*State{end}
	outs = append(outs, frame.breaks...)
	outs = append(outs, frame.continues...)
	for _, e := range extra {
		if s, ok := e.(ast.Stmt); ok && s != nil && end != nil && !end.dead {
			end = vc.execStmt(end, s)
			outs = append(outs, end)
		}
	}
	for _, ex := range vc.exits[snap.nexits:] {
		outs = append(outs, ex.st)
	}
	written := map[string]bool{}
	for _, o := range outs {
		if o == nil {
			continue
		}
		for k, v := range o.heaps {
			if b, ok := before[k]; !ok || b != v.S {
				written[k] = true
			}
		}
	}
	vc.popCtl()
	vc.rollback(snap)
	return written
}

// havocHeaps gives fresh values to the named heaps (nil = all).
func (vc *VC) havocHeaps(st *State, names map[string]bool) {
	if names == nil {
		vc.havocAllHeaps(st)
		return
	}
	var ks []string
	for k := range names {
		ks = append(ks, k)
	}
	sort.Strings(ks)
	for _, k := range ks {
		if k == allocHeap {
			a := vc.allocCounter(st)
			na := vc.fresh("alloc", sortInt)
			vc.facts = append(vc.facts, "(>= "+na.S+" "+a+")")
			st.heaps[allocHeap] = na
			continue
		}
		sn := vc.heapSorts[k]
		if sn == "" {
			continue
		}
		vc.nfresh++
		n := fmt.Sprintf("%s!%d", smtName(k), vc.nfresh)
		vc.consts = append(vc.consts, fmt.Sprintf("(declare-const %s %s)", n, sn))
		st.heaps[k] = Term{n, nil}
	}
}

// mayWriteHeap: any call (other than builtins/conversions/pure contracts), store through pointer/map, or cell var assignment.
func (vc *VC) mayWriteHeap(n ast.Node) bool {
	w := false
	ast.Inspect(n, func(m ast.Node) bool {
		if w {
			return false
		}
		switch x := m.(type) {
		case *ast.CallExpr:
			if tv, ok := vc.info.Types[x.Fun]; ok && tv.IsType() {
				return true
			}
			if id, ok := ast.Unparen(x.Fun).(*ast.Ident); ok {
				if _, isB := vc.info.Uses[id].(*types.Builtin); isB {
					if id.Name == "delete" || id.Name == "copy" {
						w = true
					}
					return true
				}
			}
			if fc := vc.contractForCall(x); fc != nil && (fc.Pure || len(fc.Modifies) == 0 && !fc.needsHavoc()) {
				// contracted callee with an empty frame still allocates: alloc counter is havocked separately
				return true
			}
			w = true
		case *ast.AssignStmt:
			for _, l := range x.Lhs {
				if vc.isHeapLvalue(l) {
					w = true
				}
			}
		case *ast.IncDecStmt:
			if vc.isHeapLvalue(x.X) {
				w = true
			}
		case *ast.UnaryExpr:
			if x.Op == token.AND {
				w = true // allocation
			}
		case *ast.CompositeLit:
			if _, ok := vc.typeOf(x).Underlying().(*types.Map); ok {
				w = true
			}
		}
		return true
	})
	return w
}

func (fc *FuncContract) needsHavoc() bool { return false }

func (vc *VC) isHeapLvalue(l ast.Expr) bool {
	for {
		switch x := ast.Unparen(l).(type) {
		case *ast.Ident:
			if v, ok := vc.info.ObjectOf(x).(*types.Var); ok && vc.cellVars[v] {
				return true
			}
			return false
		case *ast.StarExpr:
			return true
		case *ast.IndexExpr:
			if t := vc.typeOf(x.X); t != nil {
				if _, ok := t.Underlying().(*types.Map); ok {
					return true
				}
			}
			l = x.X
		case *ast.SelectorExpr:
			if sel, ok := vc.info.Selections[x]; ok && sel.Kind() == types.FieldVal {
				if _, isPtr := derefType(sel.Recv()); isPtr || sel.Indirect() {
					return true
				}
				l = x.X
				continue
			}
			return false
		default:
			return false
		}
	}
}

func (vc *VC) havocAllHeaps(st *State) {
	// every heap known so far gets a fresh value; heaps first touched later start from their !0 constant,
	// which is unconstrained anyway. To stay sound for heaps touched before AND after, bump a generation:
	names := map[string]bool{}
	for k := range st.heaps {
		names[k] = true
	}
	for k := range vc.heap0 {
		if len(k) > 0 && k[0] != '$' {
			names[k] = true
		}
	}
	var ks []string
	for k := range names {
		ks = append(ks, k)
	}
	sort.Strings(ks)
	for _, k := range ks {
		sn := vc.heapSorts[k]
		if sn == "" || k == allocHeap {
			continue
		}
		vc.nfresh++
		n := fmt.Sprintf("%s!%d", smtName(k), vc.nfresh)
		vc.consts = append(vc.consts, fmt.Sprintf("(declare-const %s %s)", n, sn))
		vc.preserveOwned(st, k, sn, n)
		st.heaps[k] = Term{n, nil}
	}
	// allocation counter only grows
	a := vc.allocCounter(st)
	na := vc.fresh("alloc", sortInt)
	vc.facts = append(vc.facts, "(>= "+na.S+" "+a+")")
	st.heaps[allocHeap] = na
	vc.heapGen++
}

// havocMapHeaps: the contents of every Go map may have changed (modifies mapcontents).
func (vc *VC) havocMapHeaps(st *State) {
	names := map[string]bool{}
	for k := range st.heaps {
		names[k] = true
	}
	for k := range vc.heap0 {
		if len(k) > 0 && k[0] != '$' {
			names[k] = true
		}
	}
	var ks []string
	for k := range names {
		if isMapHeap(k) {
			ks = append(ks, k)
		}
	}
	sort.Strings(ks)
	for _, k := range ks {
		sn := vc.heapSorts[k]
		if sn == "" {
			continue
		}
		vc.nfresh++
		n := fmt.Sprintf("%s!%d", smtName(k), vc.nfresh)
		vc.consts = append(vc.consts, fmt.Sprintf("(declare-const %s %s)", n, sn))
		vc.preserveOwned(st, k, sn, n)
		st.heaps[k] = Term{n, nil}
	}
	vc.heapGen++ // map heaps first touched later start from an unconstrained value
}

func isMapHeap(k string) bool {
	return strings.HasPrefix(k, "MD_") || strings.HasPrefix(k, "MV_") || strings.HasPrefix(k, "ML_")
}

// havocGhostVars: ghost package state (abstract file system, ...) is unknown after unknown code.
func (vc *VC) havocGhostVars(st *State) {
	var gnames []string
	for n := range vc.eng.ghostVars {
		gnames = append(gnames, n)
	}
	sort.Strings(gnames)
	for _, n := range gnames {
		vc.havocGhostVar(st, vc.eng.ghostVars[n])
	}
}

func (vc *VC) loopSpec(n ast.Node) *LoopSpec {
	ord, ok := vc.loopIndex[n]
	if !ok {
		ord = vc.loopOrd
	}
	vc.loopOrd = ord + 1
	if vc.contract != nil {
		if ls, ok := vc.contract.Loops[ord]; ok {
			ls.used = true
			return ls
		}
	}
	return &LoopSpec{}
}

func (vc *VC) execFor(st *State, x *ast.ForStmt) *State {
	saved := copyNames(st.names)
	ls := vc.loopSpec(x)
	ord := vc.loopOrd - 1
	if x.Init != nil {
		st = vc.execStmt(st, x.Init)
	}
	frame := vc.pushCtl(true)
	head := vc.loopHead(st, ls, ord, x, x.Body, x.Post)
	var variant0 string
	if ls.Decreases != nil {
		v := vc.specIn(head, ls.Decreases)
		variant0 = vc.bind("variant", v).S
	}
	exit := head.clone()
	body := head
	if x.Cond != nil {
		c := vc.eval(head, x.Cond)
		exit = head.clone()
		vc.assume(body, c.S)
		vc.assume(exit, sNot(c.S))
	} else {
		exit = deadState()
	}
	body = vc.execBlock(body, x.Body.List)
	body = vc.merge(append([]*State{body}, frame.continues...)...)
	frame.continues = nil
	if x.Post != nil && !body.dead {
		body = vc.execStmt(body, x.Post)
	}
	vc.loopBackEdge(body, ls, ord, x, variant0)
	vc.popCtl()
	m := vc.merge(append([]*State{exit}, frame.breaks...)...)
	if !m.dead {
		m.names = saved
	}
	return m
}

// loopHead: assert invariants on entry, havoc, assume invariants; returns the arbitrary-iteration state.
func (vc *VC) loopHead(st *State, ls *LoopSpec, ord int, loop ast.Node, body ast.Node, post ast.Node) *State {
	snap := &loopSnap{before: st.clone(), head: st}
	vc.loopStack = append(vc.loopStack, snap)
	for k, inv := range ls.Invariants {
		t := vc.specIn(st, inv)
		vc.assertNamed(st, fmt.Sprintf("inv-init[%d,%s]", ord, clauseID(inv, k)), "inv-init", t.S, loop.Pos(), inv.Text)
	}
	head := st.clone()
	vc.havocForLoop(head, body, post)
	if vc.loopWrites == nil {
		vc.loopWrites = map[int]map[string]bool{}
	}
	vc.loopWrites[ord] = vc.lastWritten
	snap.head = head
	for _, inv := range ls.Invariants {
		t := vc.specIn(head, inv)
		vc.assume(head, t.S)
	}
	snap.head = head.clone()
	return head
}

func (vc *VC) loopBackEdge(body *State, ls *LoopSpec, ord int, loop ast.Node, variant0 string) {
	defer func() { vc.loopStack = vc.loopStack[:len(vc.loopStack)-1] }()
	if body.dead {
		return
	}
	for k, stp := range ls.Steps {
		t := vc.specIn(body, stp)
		vc.assertNamed(body, fmt.Sprintf("step[%d,%s]", ord, clauseID(stp, k)), "step", t.S, loop.Pos(), stp.Text)
	}
	vc.frameAssert(body, vc.loopWrites[ord], ord, loop)
	for k, inv := range ls.Invariants {
		t := vc.specIn(body, inv)
		vc.assertNamed(body, fmt.Sprintf("inv-pres[%d,%s]", ord, clauseID(inv, k)), "inv-pres", t.S, loop.Pos(), inv.Text)
	}
	if ls.Decreases != nil {
		v := vc.specIn(body, ls.Decreases)
		vc.assertNamed(body, fmt.Sprintf("term[loop %d]", ord), "term", "(and (>= "+variant0+" 0) (< "+v.S+" "+variant0+"))", loop.Pos(), "decreases "+ls.Decreases.Text)
	}
}

func (vc *VC) execRange(st *State, x *ast.RangeStmt) *State {
	saved := copyNames(st.names)
	ls := vc.loopSpec(x)
	ord := vc.loopOrd - 1
	coll := vc.eval(st, x.X)
	coll = vc.bind("rng", coll)
	frame := vc.pushCtl(true)

	// hidden index variable
	idxVar := types.NewVar(x.Pos(), vc.pkg.Types, fmt.Sprintf("__i%d", ord), types.Typ[types.Int])
	st.vars[idxVar] = Term{"0", sortInt}
	st.names[idxVar.Name()] = idxVar

	var n string // number of iterations (for indexable collections)
	kind := coll.Sort.Kind
	var offVar *types.Var // byte offset of a range over a string
	if kind == KStr {
		offVar = types.NewVar(x.Pos(), vc.pkg.Types, fmt.Sprintf("__off%d", ord), types.Typ[types.Int])
		st.vars[offVar] = Term{"0", sortInt}
		st.names[offVar.Name()] = offVar
	}
	switch kind {
	case KSlice:
		n = vc.sliceLen(coll)
	case KArr:
		n = fmt.Sprint(coll.Sort.Len)
	case KInt:
		n = coll.S
	case KStr:
		// range over a string: the key is a byte offset advancing by the size (1..4) of the rune decoded there;
		// runeAt/runeSz are uninterpreted except on ASCII bytes (one byte, the byte itself): A-UTF8 (no decoder model)
		n = "(slen " + coll.S + ")"
		vc.U.ensureFun("runeAt", "(Str Int) Int")
		vc.U.ensureFun("runeSz", "(Str Int) Int")
		vc.note("A-UTF8<" + vc.position(x.Pos()).String() + ">: range over string: rune value and size at a byte offset are uninterpreted (1..4 bytes, within the string) except for ASCII bytes")
	case KMap, KFunc:
		// unordered / iterator: arbitrary number of iterations over arbitrary elements
	default:
		vc.unsupportedf(x, "range over %s", coll.Sort.Name)
	}

	// declare key/value variables (if :=) with arbitrary initial values so that havoc covers them
	declare := func(e ast.Expr, s *Sort) *types.Var {
		id, ok := e.(*ast.Ident)
		if !ok || id.Name == "_" {
			return nil
		}
		if x.Tok == token.DEFINE {
			if v, ok := vc.info.Defs[id].(*types.Var); ok {
				st.vars[v] = vc.fresh(v.Name(), vc.U.sortOf(v.Type()))
				st.names[v.Name()] = v
				return v
			}
		}
		if v, ok := vc.info.ObjectOf(id).(*types.Var); ok {
			return v
		}
		return nil
	}
	var keyVar, valVar *types.Var
	if x.Key != nil {
		keyVar = declare(x.Key, nil)
	}
	if x.Value != nil {
		valVar = declare(x.Value, nil)
	}

	// unordered collections: the set of keys already visited (hidden variable __vis<ord>, usable in invariants)
	var visVar *types.Var
	var iterFC *FuncContract
	var iterBind func(c *SpecCtx)
	var domOf func(s *State) (Term, bool)
	if kind == KFunc {
		if call, ok := ast.Unparen(x.X).(*ast.CallExpr); ok {
			if fc := vc.contractForCall(call); fc != nil && (len(fc.Yields) > 0 || fc.YieldsDomain != nil) {
				iterFC = fc
				ci := vc.resolveCallee(call)
				var recv *Term
				if ci.recv != nil {
					pre := st.clone()
					r := vc.eval(pre, ci.recv)
					if len(ci.recvPath) > 0 {
						r = vc.selectPath(pre, r, ci.recvType, ci.recvPath, nil)
					}
					recv = &r
				}
				iterBind = func(c *SpecCtx) {
					c.typeArgs = ci.typeArgs
					if ci.fn != nil {
						vc.bindParams(c, fc, ci.fn, recv, nil)
					}
				}
				if fc.YieldsDomain != nil {
					domOf = func(s *State) (Term, bool) {
						yc := vc.newSpecCtx(fc, s, s)
						iterBind(yc)
						d := yc.tr(fc.YieldsDomain.Expr)
						return d, d.Sort != nil && d.Sort.Kind == KSet && !d.Sort.IsMap
					}
				}
			}
		}
	}
	if kind == KMap {
		domOf = func(s *State) (Term, bool) {
			dom, _ := vc.mapHeaps(s, coll.Sort)
			return Term{"(select " + dom.S + " " + coll.S + ")", vc.U.setSort(coll.Sort.Key)}, true
		}
	}
	var visSort *Sort
	if domOf != nil {
		if d, ok := domOf(st); ok {
			visSort = d.Sort
			visVar = types.NewVar(x.Pos(), vc.pkg.Types, fmt.Sprintf("__vis%d", ord), types.Typ[types.Int])
			st.vars[visVar] = Term{fmt.Sprintf("((as const %s) false)", visSort.Name), visSort}
			st.names[visVar.Name()] = visVar
		}
	}

	indexable := kind == KSlice || kind == KArr || kind == KInt || kind == KStr
	if keyVar != nil && indexable && !vc.cellVars[keyVar] {
		st.vars[keyVar] = Term{"0", vc.U.sortOf(keyVar.Type())}
	}
	// implicit invariant for indexable ranges: 0 <= $i <= n
	head0 := st
	snap := &loopSnap{before: head0.clone(), head: head0}
	vc.loopStack = append(vc.loopStack, snap)
	defer func() { vc.loopStack = vc.loopStack[:len(vc.loopStack)-1] }()
	for k, inv := range ls.Invariants {
		t := vc.specIn(head0, inv)
		vc.assertNamed(head0, fmt.Sprintf("inv-init[%d,%s]", ord, clauseID(inv, k)), "inv-init", t.S, x.Pos(), inv.Text)
	}
	head := head0.clone()
	vc.havocForLoop(head, x.Body)
	rangeWrites := vc.lastWritten
	iv := vc.fresh("i", sortInt)
	head.vars[idxVar] = iv
	if n != "" {
		vc.assume(head, "(and (<= 0 "+iv.S+") (<= "+iv.S+" "+n+"))")
	} else {
		vc.assume(head, "(<= 0 "+iv.S+")")
	}
	var offT Term
	if offVar != nil {
		offT = vc.fresh("off", sortInt)
		head.vars[offVar] = offT
		vc.assume(head, "(and (<= "+iv.S+" "+offT.S+") (<= "+offT.S+" "+n+") (= (= "+iv.S+" 0) (= "+offT.S+" 0)))")
	}
	if keyVar != nil {
		if offVar != nil && !vc.cellVars[keyVar] {
			head.vars[keyVar] = offT
		} else if indexable && !vc.cellVars[keyVar] {
			head.vars[keyVar] = Term{iv.S, vc.U.sortOf(keyVar.Type())}
		} else {
			head.vars[keyVar] = vc.fresh(keyVar.Name(), vc.U.sortOf(keyVar.Type()))
			vc.typeInvariant(head, head.vars[keyVar])
		}
	}
	if valVar != nil {
		head.vars[valVar] = vc.fresh(valVar.Name(), vc.U.sortOf(valVar.Type()))
		vc.typeInvariant(head, head.vars[valVar])
	}
	var hiddenKey Term
	if visVar != nil {
		head.vars[visVar] = vc.fresh("vis", visSort)
		if d, ok := domOf(head); ok {
			// implicit invariant: only keys of the collection have been visited
			vc.assume(head, fmt.Sprintf("(forall ((x!v %s)) (! (=> (select %s x!v) (select %s x!v)) :pattern ((select %s x!v))))", visSort.Elem.Name, head.vars[visVar].S, d.S, head.vars[visVar].S))
		}
		if keyVar != nil {
			hiddenKey = head.vars[keyVar]
		} else {
			hiddenKey = vc.fresh("key", visSort.Elem)
		}
	}
	snap.head = head
	for _, inv := range ls.Invariants {
		t := vc.specIn(head, inv)
		vc.assume(head, t.S)
	}
	snap.head = head.clone()
	var variant0 string
	exit := head.clone()
	body := head
	if offVar != nil {
		vc.assume(body, "(< "+offT.S+" "+n+")")
		vc.assume(exit, "(>= "+offT.S+" "+n+")")
		sz := "(runeSz " + coll.S + " " + offT.S + ")"
		vc.assume(body, "(and (<= 1 "+sz+") (<= "+sz+" 4) (<= (+ "+offT.S+" "+sz+") "+n+") (<= 0 (runeAt "+coll.S+" "+offT.S+")) (<= (runeAt "+coll.S+" "+offT.S+") 1114111))")
		vc.assume(body, "(=> (< (sat "+coll.S+" "+offT.S+") 128) (and (= "+sz+" 1) (= (runeAt "+coll.S+" "+offT.S+") (sat "+coll.S+" "+offT.S+"))))")
	} else if n != "" {
		vc.assume(body, "(< "+iv.S+" "+n+")")
		vc.assume(exit, "(>= "+iv.S+" "+n+")")
		variant0 = "(- " + n + " " + iv.S + ")"
	} else {
		// unordered: may exit or continue at any time
		more := vc.fresh("more", sortBool)
		vc.assume(body, more.S)
		vc.assume(exit, sNot(more.S))
		if visVar != nil {
			// this iteration's key has not been visited; a normal end of the loop has visited every key
			vc.assume(body, sNot("(select "+head.vars[visVar].S+" "+hiddenKey.S+")"))
			if d, ok := domOf(exit); ok {
				vc.assume(exit, fmt.Sprintf("(forall ((x!v %s)) (! (=> (select %s x!v) (select %s x!v)) :pattern ((select %s x!v)) :pattern ((select %s x!v))))", visSort.Elem.Name, d.S, exit.vars[visVar].S, exit.vars[visVar].S, d.S))
			}
		}
	}
	// bind key / value for this iteration
	switch kind {
	case KSlice:
		if keyVar != nil {
			vc.writeVar(body, keyVar, Term{iv.S, sortInt})
		}
		if valVar != nil {
			vc.writeVar(body, valVar, Term{"(select " + vc.sliceArr(coll) + " " + iv.S + ")", coll.Sort.Elem})
		}
	case KArr:
		if keyVar != nil {
			vc.writeVar(body, keyVar, Term{iv.S, sortInt})
		}
		if valVar != nil {
			vc.writeVar(body, valVar, Term{"(select " + coll.S + " " + iv.S + ")", coll.Sort.Elem})
		}
	case KInt:
		if keyVar != nil {
			vc.writeVar(body, keyVar, Term{iv.S, vc.U.sortOf(keyVar.Type())})
		}
	case KStr:
		if keyVar != nil {
			vc.writeVar(body, keyVar, Term{offT.S, sortInt})
		}
		if valVar != nil {
			vc.writeVar(body, valVar, Term{"(runeAt " + coll.S + " " + offT.S + ")", vc.U.sortOf(valVar.Type())})
		}
	case KFunc:
		// range over an iterator: elements satisfy the `yields` clauses of the function that produced it
		if iterFC != nil {
			fc := iterFC
			yc := vc.newSpecCtx(fc, body, body)
			iterBind(yc)
			if keyVar != nil {
				yc.vars["k"] = body.vars[keyVar]
			} else if visVar != nil {
				yc.vars["k"] = hiddenKey
			}
			if valVar != nil {
				yc.vars["v"] = body.vars[valVar]
			} else if it, ok := vc.typeOf(x.X).Underlying().(*types.Signature); ok && it.Params().Len() == 1 {
				// the value is not bound by the loop: an arbitrary value of the iterator's second type
				if ys, ok := it.Params().At(0).Type().Underlying().(*types.Signature); ok && ys.Params().Len() == 2 {
					hv := vc.fresh("itv", vc.U.sortOf(ys.Params().At(1).Type()))
					vc.typeInvariant(body, hv)
					yc.vars["v"] = hv
				}
			}
			for _, y := range fc.Yields {
				vc.assume(body, yc.tr(y.Expr).S)
			}
			if visVar != nil {
				if d, ok := domOf(body); ok {
					vc.assume(body, "(select "+d.S+" "+hiddenKey.S+")")
				}
			}
		}
	case KMap:
		if keyVar != nil {
			dom, val := vc.mapHeaps(body, coll.Sort)
			k := body.vars[keyVar]
			vc.assume(body, "(select (select "+dom.S+" "+coll.S+") "+k.S+")")
			if valVar != nil {
				vc.writeVar(body, valVar, Term{"(select (select " + val.S + " " + coll.S + ") " + k.S + ")", coll.Sort.Elem})
			}
		}
	}
	body = vc.execBlock(body, x.Body.List)
	body = vc.merge(append([]*State{body}, frame.continues...)...)
	if !body.dead {
		cur := body.vars[idxVar]
		body.vars[idxVar] = Term{"(+ " + cur.S + " 1)", sortInt}
		if visVar != nil {
			body.vars[visVar] = Term{"(store " + body.vars[visVar].S + " " + hiddenKey.S + " true)", visSort}
		}
		if offVar != nil {
			body.vars[offVar] = Term{"(+ " + offT.S + " (runeSz " + coll.S + " " + offT.S + "))", sortInt}
		}
		if keyVar != nil && (kind == KSlice || kind == KArr || kind == KInt) && !vc.cellVars[keyVar] {
			body.vars[keyVar] = Term{body.vars[idxVar].S, vc.U.sortOf(keyVar.Type())}
		}
		if keyVar != nil && kind == KStr && !vc.cellVars[keyVar] {
			body.vars[keyVar] = body.vars[offVar]
		}
		for k, stp := range ls.Steps {
			t := vc.specIn(body, stp)
			vc.assertNamed(body, fmt.Sprintf("step[%d,%s]", ord, clauseID(stp, k)), "step", t.S, x.Pos(), stp.Text)
		}
		vc.frameAssert(body, rangeWrites, ord, x)
		for k, inv := range ls.Invariants {
			t := vc.specIn(body, inv)
			vc.assertNamed(body, fmt.Sprintf("inv-pres[%d,%s]", ord, clauseID(inv, k)), "inv-pres", t.S, x.Pos(), inv.Text)
		}
		_ = variant0
	}
	vc.popCtl()
	m := vc.merge(append([]*State{exit}, frame.breaks...)...)
	if !m.dead {
		m.names = saved
	}
	return m
}


// preserveOwned: objects allocated by this unit that never escape keep their heap entries
// across calls of unknown code (nobody else holds a reference to them).
func (vc *VC) preserveOwned(st *State, heap, sortName, newName string) {
	if len(vc.owned) == 0 || !strings.HasPrefix(sortName, "(Array ") {
		return
	}
	rest := sortName[7:]
	key := rest
	if i := strings.IndexByte(rest, ' '); i >= 0 {
		key = rest[:i]
	}
	old, ok := st.heaps[heap]
	if !ok {
		old, ok = vc.heap0[heap]
	}
	if !ok {
		return
	}
	for _, o := range vc.owned {
		if o.Sort.Name == key {
			vc.facts = append(vc.facts, sEq("(select "+newName+" "+o.S+")", "(select "+old.S+" "+o.S+")"))
		}
	}
}


// callsFuncValue reports whether n contains a call through the function value written `name`.
func (vc *VC) callsFuncValue(n ast.Node, name string) bool {
	found := false
	ast.Inspect(n, func(m ast.Node) bool {
		if c, ok := m.(*ast.CallExpr); ok {
			if exprString(ast.Unparen(c.Fun)) == name {
				found = true
			}
		}
		return !found
	})
	return found
}
