package main

// Replay of counter-models on the real code through `go test -overlay` (nothing is written into /repo).

import (
	"encoding/json"
	"fmt"
	"go/types"
	"os"
	"os/exec"
	"path/filepath"
	"regexp"
	"strings"
	"time"
)

// runOverlayTest injects testSrc as <pkgDir>/zz_govc_replay_test.go and runs `go test -run runExpr`.
func runOverlayTest(repo, pkgDir, testSrc, runExpr string, timeout time.Duration) (string, error) {
	tmp, err := os.MkdirTemp("", "govc-replay-")
	if err != nil {
		return "", err
	}
	defer os.RemoveAll(tmp)
	src := filepath.Join(tmp, "zz_govc_replay_test.go")
	if err := os.WriteFile(src, []byte(testSrc), 0o644); err != nil {
		return "", err
	}
	ov := map[string]any{"Replace": map[string]string{filepath.Join(pkgDir, "zz_govc_replay_test.go"): src}}
	ovData, _ := json.Marshal(ov)
	ovPath := filepath.Join(tmp, "overlay.json")
	os.WriteFile(ovPath, ovData, 0o644)
	rel, _ := filepath.Rel(repo, pkgDir)
	cmd := exec.Command("go", "test", "-overlay", ovPath, "-vet=off", "-count=1", "-v", "-timeout", fmt.Sprint(int(timeout.Seconds()))+"s", "-run", runExpr, "./"+rel)
	cmd.Dir = repo
	cmd.Env = append(os.Environ(), "GOFLAGS=-mod=mod", "GOPROXY=off")
	out, err := cmd.CombinedOutput()
	return string(out), err
}

var modelDefRE = regexp.MustCompile(`\(define-fun ([^\s()]+) \(\) (\S+)\s+((?:\(- \d+\))|[^\s()]+)\)`)

// parseModel extracts nullary definitions name -> value text.
func parseModel(model string) map[string]string {
	out := map[string]string{}
	flat := strings.Join(strings.Fields(model), " ")
	for _, m := range modelDefRE.FindAllStringSubmatch(flat, -1) {
		out[m[1]] = m[3]
	}
	return out
}

func smtIntToGo(v string) string {
	v = strings.TrimSpace(v)
	if strings.HasPrefix(v, "(- ") {
		return "-" + strings.TrimSuffix(v[3:], ")")
	}
	return v
}

// replayScalar replays a refuted obligation of a function whose parameters are integers, booleans or
// strings: the real function is called with the model's arguments and its observed result is compared
// with the result the model predicts (which the solver has shown to violate the clause).
func replayScalar(c *CheckCtx, o *Obligation) (string, bool, map[string]any) {
	detail := map[string]any{}
	if o.Result.Verdict != Refuted || o.vc == nil {
		return "", false, detail
	}
	vc := o.vc
	u := vc.unit
	if u.Decl == nil || u.Sig == nil || u.Sig.Recv() != nil {
		return "", false, detail
	}
	model := parseModel(o.Result.Model)
	// string literal constants: value -> literal text
	litByVal := map[string]string{}
	for text, name := range vc.U.lits {
		if v, ok := model[name]; ok {
			litByVal[v] = text
		}
	}
	var args []string
	var shown []string
	for i := 0; i < u.Sig.Params().Len(); i++ {
		p := u.Sig.Params().At(i)
		t, ok := vc.entry.vars[p]
		if !ok {
			return "", false, detail
		}
		val, ok := model[t.S]
		tn := types.TypeString(p.Type(), func(pk *types.Package) string { return pk.Name() })
		switch t.Sort.Kind {
		case KInt:
			if !ok {
				val = "0"
			}
			args = append(args, fmt.Sprintf("%s(%s)", tn, smtIntToGo(val)))
		case KBool:
			if !ok {
				val = "false"
			}
			args = append(args, val)
		case KStr:
			text, isLit := litByVal[val]
			if !ok || !isLit {
				text = "\x01govc-other-string"
			}
			args = append(args, fmt.Sprintf("%s(%q)", tn, text))
		default:
			return "", false, detail
		}
		shown = append(shown, fmt.Sprintf("%s=%s", p.Name(), args[len(args)-1]))
	}
	call := fmt.Sprintf("%s(%s)", u.Decl.Name.Name, strings.Join(args, ", "))
	// imports needed by type names in the arguments
	imports := map[string]bool{"fmt": true, "testing": true}
	for i := 0; i < u.Sig.Params().Len(); i++ {
		if n, ok := u.Sig.Params().At(i).Type().(*types.Named); ok && n.Obj().Pkg() != nil && n.Obj().Pkg() != u.Pkg.Types {
			imports[n.Obj().Pkg().Path()] = true
		}
	}
	var imp strings.Builder
	for p := range imports {
		fmt.Fprintf(&imp, "\t%q\n", p)
	}
	nres := u.Sig.Results().Len()
	var lhs []string
	for i := 0; i < nres; i++ {
		lhs = append(lhs, fmt.Sprintf("r%d", i))
	}
	src := fmt.Sprintf("package %s\n\nimport (\n%s)\n\nfunc TestGovcReplay(t *testing.T) {\n\t%s := %s\n\tfmt.Printf(\"GOVC-REPLAY %s\\n\", %s)\n}\n",
		u.Pkg.Types.Name(), imp.String(), strings.Join(lhs, ", "), call, strings.Repeat("[%v] ", nres), strings.Join(lhs, ", "))
	pkgDir := filepath.Dir(vc.position(u.Decl.Pos()).Filename)
	out, err := runOverlayTest(c.Repo, pkgDir, src, "TestGovcReplay$", 60*time.Second)
	detail["replay_test"] = src
	detail["replay_output"] = truncate(out, 2000)
	observed := ""
	for _, l := range strings.Split(out, "\n") {
		if strings.HasPrefix(l, "GOVC-REPLAY ") {
			observed = strings.TrimSpace(l[12:])
		}
	}
	if err != nil && observed == "" {
		detail["replay_error"] = err.Error()
		return call, false, detail
	}
	// the model's prediction of the results
	var predicted []string
	for i, r := range vc.finalResults {
		v, ok := model[r.S]
		if !ok {
			// result term may be a direct expression (single exit): ask nothing, mark unknown
			predicted = append(predicted, "?")
			continue
		}
		switch r.Sort.Kind {
		case KInt:
			predicted = append(predicted, smtIntToGo(v))
		case KStr:
			if text, ok := litByVal[v]; ok {
				predicted = append(predicted, text)
			} else {
				predicted = append(predicted, "?")
			}
		case KAny:
			if v == model["anynil"] {
				predicted = append(predicted, "<nil>")
			} else {
				predicted = append(predicted, "<non-nil>")
			}
		default:
			predicted = append(predicted, v)
		}
		_ = i
	}
	detail["observed_result"] = observed
	detail["model_predicted_result"] = predicted
	confirmed := true
	obsParts := regexp.MustCompile(`\[([^\]]*)\]`).FindAllStringSubmatch(observed, -1)
	for i, p := range predicted {
		if p == "?" {
			continue
		}
		if p == "<non-nil>" {
			if i >= len(obsParts) || obsParts[i][1] == "<nil>" {
				confirmed = false
			}
			continue
		}
		if i >= len(obsParts) || obsParts[i][1] != p {
			confirmed = false
		}
	}
	detail["explanation"] = "the real function was called with the counter-model's arguments; its observed result equals the result under which the solver shows the clause to be violated"
	return call + " => " + observed, confirmed, detail
}
