package main

// Calls: builtins, conversions, calls by contract.

import (
	"fmt"
	"go/ast"
	"go/token"
	"go/types"
	"strings"
)

// calleeInfo describes a resolved call target.
type calleeInfo struct {
	fn       *types.Func // nil for function values
	key      string      // contract key
	altKeys  []string
	recv     ast.Expr    // receiver expression (methods)
	recvType types.Type  // static receiver type
	typeArgs map[string]types.Type
	fvalue   ast.Expr // function-valued expression (callbacks)
	recvPath []int   // embedded-field path to the real receiver of a promoted method
}

func namedOf(t types.Type) *types.Named {
	t = types.Unalias(t)
	if p, ok := t.(*types.Pointer); ok {
		t = types.Unalias(p.Elem())
	}
	n, _ := t.(*types.Named)
	return n
}

func funcKey(f *types.Func) string {
	f = f.Origin()
	sig := f.Type().(*types.Signature)
	pkg := ""
	if f.Pkg() != nil {
		pkg = f.Pkg().Path()
	}
	if r := sig.Recv(); r != nil {
		if n := namedOf(r.Type()); n != nil {
			return pkg + "." + n.Obj().Name() + "." + f.Name()
		}
		return pkg + ".?." + f.Name()
	}
	return pkg + "." + f.Name()
}

func typeArgMap(n *types.Named, m map[string]types.Type) {
	if n == nil || n.TypeArgs() == nil {
		return
	}
	tps := n.Origin().TypeParams()
	for i := 0; i < tps.Len() && i < n.TypeArgs().Len(); i++ {
		m[tps.At(i).Obj().Name()] = n.TypeArgs().At(i)
	}
}

func (vc *VC) resolveCallee(x *ast.CallExpr) *calleeInfo {
	ci := &calleeInfo{typeArgs: map[string]types.Type{}}
	fun := ast.Unparen(x.Fun)
	// strip explicit instantiation
	switch ix := fun.(type) {
	case *ast.IndexExpr:
		if tv, ok := vc.info.Types[ix.Index]; ok && tv.IsType() {
			fun = ix.X
		}
	case *ast.IndexListExpr:
		fun = ix.X
	}
	var id *ast.Ident
	switch f := fun.(type) {
	case *ast.Ident:
		id = f
	case *ast.SelectorExpr:
		if sel, ok := vc.info.Selections[f]; ok {
			switch sel.Kind() {
			case types.MethodVal:
				ci.fn = sel.Obj().(*types.Func)
				ci.recv = f.X
				ci.recvType = sel.Recv()
				if idx := sel.Index(); len(idx) > 1 {
					ci.recvPath = idx[:len(idx)-1]
				}
				if n := namedOf(sel.Recv()); n != nil {
					typeArgMap(n, ci.typeArgs)
					pkg := ""
					if n.Obj().Pkg() != nil {
						pkg = n.Obj().Pkg().Path()
					}
					ci.key = pkg + "." + n.Obj().Name() + "." + ci.fn.Name()
					ci.altKeys = append(ci.altKeys, funcKey(ci.fn))
				} else {
					ci.key = funcKey(ci.fn)
				}
				return ci
			case types.FieldVal:
				ci.fvalue = f
				return ci
			}
		}
		id = f.Sel
	default:
		ci.fvalue = fun
		return ci
	}
	switch o := vc.info.ObjectOf(id).(type) {
	case *types.Func:
		ci.fn = o
		ci.key = funcKey(o)
		if inst, ok := vc.info.Instances[id]; ok && inst.TypeArgs != nil {
			tps := o.Origin().Type().(*types.Signature).TypeParams()
			for i := 0; i < tps.Len() && i < inst.TypeArgs.Len(); i++ {
				ci.typeArgs[tps.At(i).Obj().Name()] = inst.TypeArgs.At(i)
			}
		}
	default:
		ci.fvalue = fun
	}
	return ci
}

func (vc *VC) contractForCall(x *ast.CallExpr) *FuncContract {
	ci := vc.resolveCallee(x)
	if ci.fn == nil {
		return nil
	}
	return vc.lookupContract(ci)
}

func (vc *VC) lookupContract(ci *calleeInfo) *FuncContract {
	if fc, ok := vc.eng.contracts[ci.key]; ok {
		return fc
	}
	for _, k := range ci.altKeys {
		if fc, ok := vc.eng.contracts[k]; ok {
			return fc
		}
	}
	return nil
}

func (vc *VC) evalCall(st *State, x *ast.CallExpr) []Term {
	// conversion
	if tv, ok := vc.info.Types[x.Fun]; ok && tv.IsType() {
		return []Term{vc.evalConversion(st, x, tv.Type)}
	}
	if id, ok := ast.Unparen(x.Fun).(*ast.Ident); ok {
		if b, isB := vc.info.Uses[id].(*types.Builtin); isB {
			return vc.evalBuiltin(st, x, b.Name())
		}
	}
	ci := vc.resolveCallee(x)
	sigT := vc.typeOf(x.Fun)
	sig, _ := sigT.Underlying().(*types.Signature)
	if sig == nil {
		vc.unsupportedf(x, "call of non-function")
		return []Term{vc.fresh("unk", sortInt)}
	}
	// receiver
	var recv *Term
	if ci.recv != nil {
		r := vc.eval(st, ci.recv)
		if len(ci.recvPath) > 0 {
			r = vc.selectPath(st, r, ci.recvType, ci.recvPath, x)
		}
		// auto address / deref for method receivers
		if ci.fn != nil {
			msig := ci.fn.Type().(*types.Signature)
			if mr := msig.Recv(); mr != nil {
				_, wantPtr := derefType(mr.Type())
				_, havePtr := derefType(vc.typeOf(ci.recv))
				if wantPtr && !havePtr && r.Sort.Kind != KAny {
					// method with pointer receiver called on addressable value: take its address if it is a cell
					if idn, ok := ast.Unparen(ci.recv).(*ast.Ident); ok {
						if v, ok := vc.info.ObjectOf(idn).(*types.Var); ok && vc.cellVars[v] {
							if ref, ok := st.vars[v]; ok {
								r = Term{ref.S, vc.U.sortOf(mr.Type())}
							}
						}
					}
				} else if !wantPtr && havePtr && r.Sort.Kind == KRef {
					vc.assert(st, "nil", sNot(sEq(r.S, "0")), x.Pos(), "nil receiver dereference")
					r = vc.loadRef(st, r.S, r.Sort.Elem)
				}
			}
		}
		if r.Sort.Kind == KAny {
			vc.assert(st, "nil", sNot(sEq(r.S, "anynil")), x.Pos(), "method call on nil interface")
		}
		recv = &r
	}
	// arguments
	args := vc.evalArgs(st, x, sig)
	if ci.fn == nil {
		return vc.callFuncValue(st, x, ci, sig, args)
	}
	fc := vc.lookupContract(ci)
	if fc == nil {
		return vc.callUncontracted(st, x, ci, sig, recv, args)
	}
	return vc.callByContract(st, x, fc, ci, sig, recv, args)
}

func (vc *VC) evalArgs(st *State, x *ast.CallExpr, sig *types.Signature) []Term {
	var args []Term
	np := sig.Params().Len()
	if len(x.Args) == 1 && np > 1 {
		// f(g()) with multi-value g
		vals := vc.evalMulti(st, x.Args[0], false)
		for i, v := range vals {
			if i < np {
				args = append(args, vc.convertTo(v, sig.Params().At(i).Type()))
			}
		}
		return args
	}
	for i, a := range x.Args {
		if sig.Variadic() && i >= np-1 {
			if x.Ellipsis.IsValid() {
				args = append(args, vc.eval(st, a))
				return args
			}
			// pack the remaining arguments into a slice
			st0 := sig.Params().At(np - 1).Type().(*types.Slice)
			ss := vc.U.sortOf(st0)
			arr := vc.U.zeroArray(ss.Elem)
			n := 0
			for _, rest := range x.Args[i:] {
				v := vc.convertTo(vc.eval(st, rest), st0.Elem())
				arr = fmt.Sprintf("(store %s %d %s)", arr, n, v.S)
				n++
			}
			args = append(args, vc.bind("va", Term{fmt.Sprintf("(mk_%s %s %d)", ss.Name, arr, n), ss}))
			return args
		}
		v := vc.eval(st, a)
		args = append(args, vc.convertTo(v, sig.Params().At(i).Type()))
	}
	if sig.Variadic() && len(x.Args) < np {
		st0 := sig.Params().At(np - 1).Type().(*types.Slice)
		ss := vc.U.sortOf(st0)
		args = append(args, Term{vc.U.zero(ss), ss})
	}
	return args
}

func (vc *VC) freshResults(st *State, sig *types.Signature, prefix string) []Term {
	var out []Term
	for i := 0; i < sig.Results().Len(); i++ {
		s := vc.U.sortOf(sig.Results().At(i).Type())
		t := vc.fresh(prefix, s)
		vc.typeInvariant(st, t)
		out = append(out, t)
	}
	return out
}

func (vc *VC) callUncontracted(st *State, x *ast.CallExpr, ci *calleeInfo, sig *types.Signature, recv *Term, args []Term) []Term {
	vc.uncontracted[ci.key] = true
	vc.havocAllHeaps(st)
	vc.havocGhostVars(st)
	vc.havocSliceArgs(st, x)
	return vc.freshResults(st, sig, "r_"+ci.fn.Name())
}

// havocSliceArgs: a callee without a contract may write through any slice it is handed. Slices are values in this
// model, so the local variable the argument is (a sub-slice of) gets unknown contents of the same length.
func (vc *VC) havocSliceArgs(st *State, x *ast.CallExpr) {
	for _, a := range x.Args {
		e := ast.Unparen(a)
		for {
			if se, ok := e.(*ast.SliceExpr); ok {
				e = ast.Unparen(se.X)
				continue
			}
			break
		}
		id, ok := e.(*ast.Ident)
		if !ok {
			continue
		}
		v, ok := vc.info.Uses[id].(*types.Var)
		if !ok {
			continue
		}
		if _, isSlice := v.Type().Underlying().(*types.Slice); !isSlice {
			continue
		}
		cur, ok := st.vars[v]
		if !ok {
			continue
		}
		nv := vc.fresh(v.Name()+"_w", cur.Sort)
		vc.typeInvariant(st, nv)
		vc.assume(st, sEq(vc.sliceLen(nv), vc.sliceLen(cur)))
		st.vars[v] = nv
	}
}

func (vc *VC) callFuncValue(st *State, x *ast.CallExpr, ci *calleeInfo, sig *types.Signature, args []Term) []Term {
	fv := vc.eval(st, ci.fvalue)
	vc.assert(st, "nil", sNot(sEq(fv.S, "0")), x.Pos(), "call of nil function value")
	name := exprString(ci.fvalue)
	// callback contract?
	if cb := vc.callbackSpec(name); cb != nil {
		return vc.callCallback(st, x, cb, sig, fv, args)
	}
	// a package-level variable of function type (e.g. grammar.CmpTerminal) may carry a contract of its own,
	// written like a function contract under the variable's name
	if pv := vc.packageFuncVar(ci.fvalue); pv != nil {
		key := pv.Pkg().Path() + "." + pv.Name()
		if fc, ok := vc.eng.contracts[key]; ok {
			fn := types.NewFunc(pv.Pos(), pv.Pkg(), pv.Name(), sig)
			ci2 := &calleeInfo{fn: fn, key: key, typeArgs: map[string]types.Type{}}
			vc.note("A-FUNCVAR<" + key + ">: the package-level function variable is never reassigned; calls through it use its contract")
			return vc.callByContract(st, x, fc, ci2, sig, nil, args)
		}
	}
	vc.uncontracted["<funcvalue> "+name] = true
	vc.havocAllHeaps(st)
	vc.havocGhostVars(st)
	vc.havocSliceArgs(st, x)
	return vc.freshResults(st, sig, "r_"+smtName(name))
}

func (vc *VC) packageFuncVar(e ast.Expr) *types.Var {
	var id *ast.Ident
	switch f := ast.Unparen(e).(type) {
	case *ast.Ident:
		id = f
	case *ast.SelectorExpr:
		id = f.Sel
	default:
		return nil
	}
	v, ok := vc.info.ObjectOf(id).(*types.Var)
	if !ok || v.Pkg() == nil || v.Parent() != v.Pkg().Scope() {
		return nil
	}
	return v
}

func exprString(e ast.Expr) string {
	switch x := e.(type) {
	case *ast.Ident:
		return x.Name
	case *ast.SelectorExpr:
		return exprString(x.X) + "." + x.Sel.Name
	case *ast.ParenExpr:
		return exprString(x.X)
	}
	return fmt.Sprintf("%T", e)
}

// callByContract: assert requires, havoc frame, assume ensures.
func (vc *VC) callByContract(st *State, x *ast.CallExpr, fc *FuncContract, ci *calleeInfo, sig *types.Signature, recv *Term, args []Term) []Term {
	fc.Used = true
	if fc.Assumed {
		vc.calledAssumed[fc.Key] = true
	}
	ctx := vc.newSpecCtx(fc, st, st)
	ctx.typeArgs = ci.typeArgs
	ctx.cbinv = vc.contract
	vc.bindParams(ctx, fc, ci.fn, recv, args)
	callOrd := vc.counters["call"]
	vc.counters["call"] = callOrd + 1
	if len(fc.Callbacks) > 0 {
		vc.refineCallbacks(st, x, fc, ci, recv, args, callOrd)
	}
	if vc.contract != nil {
		for _, cs := range vc.contract.Callsites {
			if len(cs.Requires) == 0 {
				continue
			}
			if callsiteMatches(cs.Callee, fc.Key, callOrd) {
				cs.used = true
				own := vc.newSpecCtx(vc.contract, st, vc.entry)
				vc.bindOwnParams(own)
				for i, a := range args {
					own.vars[fmt.Sprintf("arg%d", i)] = a
				}
				for k, r := range cs.Requires {
					t := own.tr(r.Expr)
					vc.assertNamed(st, fmt.Sprintf("callsite[%d:%s,%s]", callOrd, cs.Callee, clauseID(r, k)), "callsite", t.S, x.Pos(), "at every call of "+cs.Callee+": "+r.Text)
				}
			}
		}
	}
	for k, r := range fc.Requires {
		t := ctx.tr(r.Expr)
		vc.assertNamed(st, fmt.Sprintf("pre[%d:%s,%d]", callOrd, shortKey(fc.Key), k), "pre", t.S, x.Pos(), "precondition of "+fc.Key+": "+r.Text)
	}
	if st.dead {
		return vc.freshResults(st, sig, "r")
	}
	// recursion: termination measure must decrease
	if fc == vc.contract && fc.Decreases != nil && vc.entryVariant != "" {
		m := ctx.tr(fc.Decreases.Expr)
		vc.assertNamed(st, fmt.Sprintf("term[rec %d]", callOrd), "term", "(and (>= "+vc.entryVariant+" 0) (< "+m.S+" "+vc.entryVariant+"))", x.Pos(), "recursive call decreases "+fc.Decreases.Text)
	}
	old := st.clone()
	var results []Term
	if fc.Pure {
		fn := vc.declarePure(fc, ci.fn)
		var as []string
		if recv != nil {
			as = append(as, recv.S)
		}
		for _, a := range args {
			as = append(as, a.S)
		}
		rs := vc.U.sortOf(sig.Results().At(0).Type())
		results = []Term{{sApp(fn, as...), rs}}
		return results
	}
	// frame
	for _, m := range fc.Modifies {
		ctx.cur = st
		ctx.old = old
		if vc.mutateSliceParam(st, ctx, x, fc, ci, m, args) {
			continue
		}
		vc.havocLocation(ctx, st, m)
	}
	// callee may allocate
	a := vc.allocCounter(st)
	na := vc.fresh("alloc", sortInt)
	vc.facts = append(vc.facts, "(>= "+na.S+" "+a+")")
	st.heaps[allocHeap] = na
	results = vc.freshResults(st, sig, "r_"+ci.fn.Name())
	if fc.FreshResult && len(results) > 0 {
		vc.freshResult[results[0].S] = true
		if results[0].Sort != nil && results[0].Sort.Kind == KRef {
			// a freshly allocated object: allocated by the callee (nil allowed: contracts say when it is non-nil)
			vc.facts = append(vc.facts, "(or (= "+results[0].S+" 0) (and (> "+results[0].S+" "+a+") (<= "+results[0].S+" "+na.S+")))")
		}
	}
	ctx.cur = st
	ctx.old = old
	vc.bindResults(ctx, ci.fn, results)
	if len(fc.Callbacks) > 0 {
		vc.havocClientInv(st) // the callee may have run callbacks, which own the client invariant
	}
	for _, e := range fc.Ensures {
		t := ctx.tr(e.Expr)
		vc.assume(st, t.S)
	}
	if vc.contract != nil {
		for _, cs := range vc.contract.Callsites {
			if len(cs.Assumes) == 0 || !callsiteMatches(cs.Callee, fc.Key, callOrd) {
				continue
			}
			cs.used = true
			own := vc.newSpecCtx(vc.contract, st, old)
			vc.bindOwnParams(own)
			for i, a := range args {
				own.vars[fmt.Sprintf("arg%d", i)] = a
			}
			for i, r := range results {
				own.vars[fmt.Sprintf("result%d", i)] = r
			}
			if len(results) > 0 {
				own.vars["result"] = results[0]
			}
			for _, r := range cs.Assumes {
				vc.assume(st, own.tr(r.Expr).S)
				lbl := r.Label
				if lbl == "" {
					lbl = "LEMMA"
				}
				vc.note(fmt.Sprintf("A-%s<%s after %s>: assumed by stated lemma, not proved: %s", lbl, shortKey(vc.unit.Key), cs.Callee, r.Text))
			}
		}
		for _, n := range vc.contract.Track {
			if strings.HasSuffix(fc.Key, "."+n) {
				nv := vc.callbackVar("ncalls", n)
				cur := vc.readVar(st, nv)
				st.vars[nv] = Term{"(+ " + cur.S + " 1)", sortInt}
				for i := 0; i < sig.Results().Len(); i++ {
					if types.TypeString(sig.Results().At(i).Type(), nil) == "error" {
						st.vars[vc.callbackVar("lasterr", n)] = results[i]
					}
				}
			}
		}
	}
	if fc.NoReturn {
		st.dead = true
	}
	return results
}

func shortKey(k string) string {
	if i := strings.LastIndex(k, "/"); i >= 0 {
		return k[i+1:]
	}
	return k
}

// bindParams binds receiver and parameter names of a callee contract to argument terms.
func (vc *VC) bindParams(ctx *SpecCtx, fc *FuncContract, f *types.Func, recv *Term, args []Term) {
	sig := f.Origin().Type().(*types.Signature)
	if recv != nil {
		ctx.vars["this"] = *recv
		if fc.RecvName != "" {
			ctx.vars[fc.RecvName] = *recv
		}
		if r := sig.Recv(); r != nil && r.Name() != "" && r.Name() != "_" {
			ctx.vars[r.Name()] = *recv
		}
	}
	for i := 0; i < sig.Params().Len() && i < len(args); i++ {
		name := sig.Params().At(i).Name()
		if i < len(fc.ParamNames) && fc.ParamNames[i] != "" {
			ctx.vars[fc.ParamNames[i]] = args[i]
		}
		if name != "" && name != "_" {
			ctx.vars[name] = args[i]
		}
		ctx.vars[fmt.Sprintf("arg%d", i)] = args[i]
	}
}

func (vc *VC) bindResults(ctx *SpecCtx, f *types.Func, results []Term) {
	sig := f.Origin().Type().(*types.Signature)
	for i, r := range results {
		ctx.vars[fmt.Sprintf("result%d", i)] = r
		if i < sig.Results().Len() {
			if n := sig.Results().At(i).Name(); n != "" && n != "_" {
				ctx.vars[n] = r
			}
		}
	}
	if len(results) >= 1 {
		ctx.vars["result"] = results[0]
	}
}

func (vc *VC) evalConversion(st *State, x *ast.CallExpr, dst types.Type) Term {
	v := vc.eval(st, x.Args[0])
	ds := vc.U.sortOf(dst)
	switch {
	case ds.Kind == KInt && v.Sort.Kind == KInt:
		// narrowing wraps
		if ds.Bits != 0 {
			slo, shi, sok := v.Sort.rangeOf()
			dlo, dhi, _ := ds.rangeOf()
			if sok && v.Sort.Bits != 0 && v.Sort.Bits <= ds.Bits && (v.Sort.Signed == ds.Signed || (!v.Sort.Signed && v.Sort.Bits < ds.Bits)) {
				_ = slo
				_ = shi
				return Term{v.S, ds}
			}
			_ = dlo
			_ = dhi
			return vc.bind("conv", vc.wrap(v, ds))
		}
		return Term{v.S, ds}
	case ds.Kind == KStr && v.Sort.Kind == KInt:
		vc.U.ensureFun("str_of_rune", "(Int) Str")
		if !vc.U.declared["ax:str_of_rune"] {
			vc.U.declared["ax:str_of_rune"] = true
			vc.U.axioms = append(vc.U.axioms,
				"(forall ((r Int)) (! (=> (and (<= 0 r) (< r 128)) (and (= (slen (str_of_rune r)) 1) (= (sat (str_of_rune r) 0) r))) :pattern ((str_of_rune r))))",
				"(forall ((r Int)) (! (>= (slen (str_of_rune r)) 1) :pattern ((str_of_rune r))))")
		}
		return Term{"(str_of_rune " + v.S + ")", ds}
	case ds.Kind == KStr && v.Sort.Kind == KStr:
		return Term{v.S, ds}
	case ds.Kind == KSlice && v.Sort.Kind == KStr:
		fn := "str_to_" + ds.Name
		vc.U.ensureFun(fn, "(Str) "+ds.Name)
		if ds.Elem.Bits == 8 {
			if !vc.U.declared["ax:"+fn] {
				vc.U.declared["ax:"+fn] = true
				vc.U.axioms = append(vc.U.axioms,
					fmt.Sprintf("(forall ((s Str)) (! (= (%s_len (%s s)) (slen s)) :pattern ((%s s))))", ds.Name, fn, fn),
					fmt.Sprintf("(forall ((s Str) (i Int)) (! (= (select (%s_arr (%s s)) i) (sat s i)) :pattern ((select (%s_arr (%s s)) i))))", ds.Name, fn, ds.Name, fn))
			}
		} else {
			// []rune(s): length between 0 and len(s); ASCII text maps byte for byte (A-ASCII)
			if !vc.U.declared["ax:"+fn] {
				vc.U.declared["ax:"+fn] = true
				vc.U.axioms = append(vc.U.axioms,
					fmt.Sprintf("(forall ((s Str)) (! (and (<= 0 (%s_len (%s s))) (<= (%s_len (%s s)) (slen s)) (=> (> (slen s) 0) (> (%s_len (%s s)) 0))) :pattern ((%s s))))", ds.Name, fn, ds.Name, fn, ds.Name, fn, fn))
			}
		}
		return Term{"(" + fn + " " + v.S + ")", ds}
	case ds.Kind == KStr && v.Sort.Kind == KSlice:
		fn := v.Sort.Name + "_to_str"
		vc.U.ensureFun(fn, "("+v.Sort.Name+") Str")
		return Term{"(" + fn + " " + v.S + ")", ds}
	case ds.Kind == v.Sort.Kind && ds.Name == v.Sort.Name:
		return Term{v.S, ds}
	case ds.Kind == KAny:
		return vc.convertTo(v, dst)
	}
	vc.unsupportedf(x, "conversion %s -> %s", v.Sort.Name, ds.Name)
	return vc.fresh("conv", ds)
}

func (vc *VC) evalBuiltin(st *State, x *ast.CallExpr, name string) []Term {
	switch name {
	case "len", "cap":
		v := vc.eval(st, x.Args[0])
		if el, isPtr := derefType(vc.typeOf(x.Args[0])); isPtr {
			v = Term{"", vc.U.sortOf(el)}
		}
		switch v.Sort.Kind {
		case KSlice:
			if name == "cap" {
				c := vc.fresh("cap", sortInt)
				vc.facts = append(vc.facts, "(>= "+c.S+" "+vc.sliceLen(v)+")")
				return []Term{c}
			}
			return []Term{{vc.sliceLen(v), sortInt}}
		case KStr:
			return []Term{{"(slen " + v.S + ")", sortInt}}
		case KArr:
			return []Term{{fmt.Sprint(v.Sort.Len), sortInt}}
		case KMap:
			ln := vc.mapLen(st, v)
			return []Term{{ln, sortInt}}
		}
	case "append":
		s := vc.eval(st, x.Args[0])
		if s.Sort.Kind != KSlice {
			break
		}
		vc.noteAlias(x.Args[0], "append")
		elemT := vc.typeOf(x).Underlying().(*types.Slice).Elem()
		if x.Ellipsis.IsValid() && len(x.Args) == 2 {
			t := vc.eval(st, x.Args[1])
			if t.Sort.Kind == KStr {
				t = Term{"(str_to_" + s.Sort.Name + " " + t.S + ")", s.Sort}
				vc.U.ensureFun("str_to_"+s.Sort.Name, "(Str) "+s.Sort.Name)
			}
			fn := vc.U.ensureSliceCat(s.Sort)
			return []Term{vc.bind("app", Term{"(" + fn + " " + s.S + " " + t.S + ")", s.Sort})}
		}
		arr, ln := vc.sliceArr(s), vc.sliceLen(s)
		for i, a := range x.Args[1:] {
			v := vc.convertTo(vc.eval(st, a), elemT)
			arr = fmt.Sprintf("(store %s (+ %s %d) %s)", arr, ln, i, v.S)
		}
		return []Term{vc.bind("app", Term{fmt.Sprintf("(mk_%s %s (+ %s %d))", s.Sort.Name, arr, ln, len(x.Args)-1), s.Sort})}
	case "make":
		t := vc.typeOf(x)
		s := vc.U.sortOf(t)
		switch s.Kind {
		case KSlice:
			n := vc.eval(st, x.Args[1])
			vc.assert(st, "panic", "(>= "+n.S+" 0)", x.Pos(), "make: negative length")
			if len(x.Args) == 3 {
				c := vc.eval(st, x.Args[2])
				vc.assert(st, "panic", "(>= "+c.S+" "+n.S+")", x.Pos(), "make: cap < len")
			}
			return []Term{{fmt.Sprintf("(mk_%s %s %s)", s.Name, vc.U.zeroArray(s.Elem), n.S), s}}
		case KMap:
			ref := vc.newRef(st)
			dn, ds, _, _ := mapHeapNames(s)
			dom := vc.heapGet(st, dn, ds, nil)
			vc.heapSet(st, dn, vc.bindHeap(dn, fmt.Sprintf("(store %s %s ((as const (Array %s Bool)) false))", dom.S, ref, s.Key.Name)))
			vc.setMapLen(st, Term{ref, s}, "0")
			return []Term{{ref, s}}
		}
	case "new":
		t := vc.typeOf(x)
		ps := vc.U.sortOf(t)
		ref := vc.newRef(st)
		vc.storeRef(st, ref, ps.Elem, vc.U.zero(ps.Elem))
		vc.initGhostFields(st, Term{ref, ps})
		return []Term{{ref, ps}}
	case "panic":
		vc.eval(st, x.Args[0])
		vc.assert(st, "panic", "false", x.Pos(), "explicit panic reachable")
		st.dead = true
		return nil
	case "delete":
		m := vc.eval(st, x.Args[0])
		mt := m.Sort.GoT.Underlying().(*types.Map)
		k := vc.convertTo(vc.eval(st, x.Args[1]), mt.Key())
		dn, ds, _, _ := mapHeapNames(m.Sort)
		dom := vc.heapGet(st, dn, ds, nil)
		guard := sNot(sEq(m.S, "0"))
		nd := fmt.Sprintf("(store %s %s (store (select %s %s) %s false))", dom.S, m.S, dom.S, m.S, k.S)
		vc.heapSet(st, dn, vc.bindHeap(dn, sIte(guard, nd, dom.S)))
		return nil
	case "copy":
		vc.unsupportedf(x, "builtin copy")
		return []Term{vc.fresh("n", sortInt)}
	case "min", "max":
		a := vc.eval(st, x.Args[0])
		for _, e := range x.Args[1:] {
			b := vc.eval(st, e)
			op := "<="
			if name == "max" {
				op = ">="
			}
			a = Term{"(ite (" + op + " " + a.S + " " + b.S + ") " + a.S + " " + b.S + ")", a.Sort}
		}
		return []Term{a}
	case "print", "println":
		for _, a := range x.Args {
			vc.eval(st, a)
		}
		return nil
	}
	vc.unsupportedf(x, "builtin %s", name)
	t := vc.typeOf(x)
	if t == nil {
		return nil
	}
	return []Term{vc.fresh("unk", vc.U.sortOf(t))}
}

func (vc *VC) mapLen(st *State, m Term) string {
	hn := "ML_" + smtName(m.Sort.Key.Name) + "_" + smtName(m.Sort.Elem.Name)
	h := vc.heapGet(st, hn, "(Array Int Int)", nil)
	if !vc.U.declared["ax:maplen"] {
		vc.U.declared["ax:maplen"] = true
	}
	return "(select " + h.S + " " + m.S + ")"
}

func (vc *VC) setMapLen(st *State, m Term, v string) {
	hn := "ML_" + smtName(m.Sort.Key.Name) + "_" + smtName(m.Sort.Elem.Name)
	h := vc.heapGet(st, hn, "(Array Int Int)", nil)
	vc.heapSet(st, hn, vc.bindHeap(hn, "(store " + h.S + " " + m.S + " " + v + ")"))
}

func (u *Universe) ensureSliceCat(s *Sort) string {
	fn := s.Name + "_cat"
	if !u.declared["fun:"+fn] {
		u.ensureFun(fn, "("+s.Name+" "+s.Name+") "+s.Name)
		u.axioms = append(u.axioms,
			fmt.Sprintf("(forall ((a %s) (b %s)) (! (= (%s_len (%s a b)) (+ (%s_len a) (%s_len b))) :pattern ((%s a b))))", s.Name, s.Name, s.Name, fn, s.Name, s.Name, fn),
			fmt.Sprintf("(forall ((a %s) (b %s) (k Int)) (! (= (select (%s_arr (%s a b)) k) (ite (< k (%s_len a)) (select (%s_arr a) k) (select (%s_arr b) (- k (%s_len a))))) :pattern ((select (%s_arr (%s a b)) k))))", s.Name, s.Name, s.Name, fn, s.Name, s.Name, s.Name, s.Name, s.Name, fn),
			// the other direction: an element of an operand is an element of the concatenation (brings up the read of
			// the concatenation when only the operand has been read)
			fmt.Sprintf("(forall ((a %s) (b %s) (k Int)) (! (=> (and (<= 0 k) (< k (%s_len a))) (= (select (%s_arr (%s a b)) k) (select (%s_arr a) k))) :pattern ((%s a b) (select (%s_arr a) k))))", s.Name, s.Name, s.Name, s.Name, fn, s.Name, fn, s.Name),
			fmt.Sprintf("(forall ((a %s) (b %s) (k Int)) (! (=> (and (<= 0 k) (< k (%s_len b))) (= (select (%s_arr (%s a b)) (+ k (%s_len a))) (select (%s_arr b) k))) :pattern ((%s a b) (select (%s_arr b) k))))", s.Name, s.Name, s.Name, s.Name, fn, s.Name, s.Name, fn, s.Name))
	}
	return fn
}

// ensureElem: list membership s_elem(s, x) <=> exists i. 0 <= i < len(s) and s[i] = x, with the two facts an SMT
// solver cannot find by itself: every element read is a member, and membership in a concatenation is membership in
// one of the operands (both follow from the definition; A-ELEM).
func (u *Universe) ensureElem(s *Sort) string {
	fn := s.Name + "_elem"
	if !u.declared["fun:"+fn] {
		cat := u.ensureSliceCat(s)
		e := s.Elem.Name
		u.ensureFun(fn, "("+s.Name+" "+e+") Bool")
		u.axioms = append(u.axioms,
			fmt.Sprintf("(forall ((s %s) (x %s)) (! (= (%s s x) (exists ((i Int)) (and (<= 0 i) (< i (%s_len s)) (= (select (%s_arr s) i) x)))) :pattern ((%s s x))))", s.Name, e, fn, s.Name, s.Name, fn),
			fmt.Sprintf("(forall ((s %s) (i Int)) (! (=> (and (<= 0 i) (< i (%s_len s))) (%s s (select (%s_arr s) i))) :pattern ((select (%s_arr s) i))))", s.Name, s.Name, fn, s.Name, s.Name),
			fmt.Sprintf("(forall ((a %s) (b %s) (x %s)) (! (= (%s (%s a b) x) (or (%s a x) (%s b x))) :pattern ((%s (%s a b) x))))", s.Name, s.Name, e, fn, cat, fn, fn, fn, cat))
	}
	return fn
}

// callCallback: a call through a function value that has a callback contract in the enclosing contract.
func (vc *VC) callCallback(st *State, x *ast.CallExpr, cb *CallbackSpec, sig *types.Signature, fv Term, args []Term) []Term {
	ctx := vc.newSpecCtx(vc.contract, st, vc.entry)
	if n := len(vc.loopStack); n > 0 {
		ctx.snap = vc.loopStack[n-1]
	}
	vc.bindOwnParams(ctx)
	for i, a := range args {
		ctx.vars[fmt.Sprintf("arg%d", i)] = a
	}
	ord := vc.counters["call"]
	vc.counters["call"] = ord + 1
	for _, g := range cb.Ghosts {
		ctx.vars[g.Name] = vc.bind("gh_"+g.Name, ctx.tr(g.Expr.Expr))
	}
	for k, r := range cb.Requires {
		t := ctx.tr(r.Expr)
		vc.assertNamed(st, fmt.Sprintf("pre[%d:callback %s,%d]", ord, cb.Name, k), "pre", t.S, x.Pos(), "callback precondition: "+r.Text)
	}
	for k, r := range cb.Provides {
		t := ctx.tr(r.Expr)
		vc.assertNamed(st, fmt.Sprintf("provides[%d:callback %s,%d]", ord, cb.Name, k), "pre", t.S, x.Pos(), "callback guarantee to implementers: "+r.Text)
	}
	old := st.clone()
	if !cb.Frameless {
		vc.havocAllHeaps(st)
		vc.havocGhostVars(st)
	}
	// the abstract callback invariant is owned by the callbacks
	cv := vc.cbinvVar()
	st.vars[cv] = vc.fresh("cbinv", &Sort{Kind: KSet, Name: "(Array Int Bool)", Elem: sortInt})
	vc.havocClientInv(st)
	results := vc.freshResults(st, sig, "r_"+smtName(cb.Name))
	// ghost bookkeeping: number of calls and the error returned by the last call
	nv := vc.callbackVar("ncalls", cb.Name)
	cur := vc.readVar(st, nv)
	st.vars[nv] = Term{"(+ " + cur.S + " 1)", sortInt}
	for i := 0; i < sig.Results().Len(); i++ {
		if types.TypeString(sig.Results().At(i).Type(), nil) == "error" {
			st.vars[vc.callbackVar("lasterr", cb.Name)] = results[i]
		}
	}
	if sig.Results().Len() > 1 {
		st.vars[vc.callbackVar("lastres", cb.Name)] = vc.toAny(results[0])
	}
	ctx.cur, ctx.old = st, old
	for i, r := range results {
		ctx.vars[fmt.Sprintf("result%d", i)] = r
	}
	if len(results) > 0 {
		ctx.vars["result"] = results[0]
	}
	for _, e := range cb.Ensures {
		t := ctx.tr(e.Expr)
		vc.assume(st, t.S)
	}
	return results
}


// callbackVar returns the ghost variable counting calls of / holding the last error of a callback.
func (vc *VC) callbackVar(kind, name string) *types.Var {
	key := kind + ":" + name
	if vc.cbVars == nil {
		vc.cbVars = map[string]*types.Var{}
	}
	if v, ok := vc.cbVars[key]; ok {
		return v
	}
	var t types.Type = types.Typ[types.Int]
	if kind == "lasterr" {
		t = types.Universe.Lookup("error").Type()
	}
	if kind == "lastres" {
		t = types.NewInterfaceType(nil, nil)
	}
	v := types.NewVar(token.NoPos, vc.pkg.Types, "$"+key, t)
	vc.cbVars[key] = v
	// initial value at function entry
	if kind == "ncalls" {
		vc.entry.vars[v] = Term{"0", sortInt}
	} else {
		vc.entry.vars[v] = Term{"anynil", sortAny}
	}
	return v
}


// clientinvVar: the ghost boolean "the client's own invariant holds" (see clientinv() in spec.go).
// A-CLIENT-SEP: the client state it speaks about is reachable only through the callbacks, so only calls
// that may run callbacks change it.
func (vc *VC) clientinvVar() *types.Var {
	if vc.clientinvV == nil {
		vc.clientinvV = types.NewVar(token.NoPos, vc.pkg.Types, "$clientinv", types.Typ[types.Bool])
		vc.entry.vars[vc.clientinvV] = vc.fresh("clientinv", sortBool)
		vc.note("A-CLIENT-SEP: the abstract client invariant clientinv() speaks about state reachable only through the callbacks; only calls that may run callbacks change it")
	}
	return vc.clientinvV
}

func (vc *VC) havocClientInv(st *State) {
	if vc.clientinvV != nil {
		st.vars[vc.clientinvV] = vc.fresh("clientinv", sortBool)
	}
}

// cbinvVar: the ghost set {d | the abstract callback invariant holds at depth d}.
func (vc *VC) cbinvVar() *types.Var {
	if vc.cbinvV == nil {
		vc.cbinvV = types.NewVar(token.NoPos, vc.pkg.Types, "$cbinv", types.Typ[types.Int])
		t := vc.fresh("cbinv", &Sort{Kind: KSet, Name: "(Array Int Bool)", Elem: sortInt})
		vc.entry.vars[vc.cbinvV] = t
	}
	return vc.cbinvV
}


// callbackSpec: the callback contract for a function value called in this unit. A function literal
// inherits the callback contracts its enclosing function declares for variables it captures: the
// exported part (frameless/ghost/provides/ensures) comes from the enclosing contract, the literal's own
// contract may add internal `requires`.
func (vc *VC) callbackSpec(name string) *CallbackSpec {
	var own *CallbackSpec
	if vc.contract != nil {
		for _, cb := range vc.contract.Callbacks {
			if cb.Name == name {
				own = cb
			}
		}
	}
	var inherited *CallbackSpec
	for u := vc.unit.Parent; u != nil && inherited == nil; u = u.Parent {
		if pc := vc.eng.contracts[u.Key]; pc != nil {
			for _, cb := range pc.Callbacks {
				if cb.Name == name {
					inherited = cb
				}
			}
		}
	}
	switch {
	case own == nil:
		return inherited
	case inherited == nil:
		return own
	}
	m := &CallbackSpec{Name: name, Frameless: own.Frameless || inherited.Frameless}
	m.Ghosts = append(append([]CallbackGhost{}, inherited.Ghosts...), own.Ghosts...)
	m.Requires = append(append([]*Clause{}, inherited.Requires...), own.Requires...)
	m.Provides = append(append([]*Clause{}, inherited.Provides...), own.Provides...)
	m.Ensures = append(append([]*Clause{}, inherited.Ensures...), own.Ensures...)
	return m
}


// mutateSliceParam: `modifies a` where a is a slice parameter means the callee may overwrite the elements of the
// caller's slice in place (same length). Slices are values in the model, so the caller's variable is given new
// contents; inside the callee's ensures `a` is the new value and old(a) the value passed.
func (vc *VC) mutateSliceParam(st *State, ctx *SpecCtx, x *ast.CallExpr, fc *FuncContract, ci *calleeInfo, m *Clause, args []Term) bool {
	id, ok := m.Expr.(*SIdent)
	if !ok || ci.fn == nil {
		return false
	}
	sig := ci.fn.Origin().Type().(*types.Signature)
	for i := 0; i < sig.Params().Len() && i < len(args) && i < len(x.Args); i++ {
		name := sig.Params().At(i).Name()
		if i < len(fc.ParamNames) && fc.ParamNames[i] != "" {
			name = fc.ParamNames[i]
		}
		if name != id.Name || args[i].Sort == nil || args[i].Sort.Kind != KSlice {
			continue
		}
		if sig.Variadic() && i == sig.Params().Len()-1 {
			return false
		}
		ss := args[i].Sort
		arr := vc.fresh("marr", &Sort{Kind: KArr, Name: "(Array Int " + ss.Elem.Name + ")", Elem: ss.Elem})
		nv := vc.bind("msl", Term{fmt.Sprintf("(mk_%s %s %s)", ss.Name, arr.S, vc.sliceLen(args[i])), ss})
		vc.assignTo(st, x.Args[i], nv)
		if ctx.oldVars == nil {
			ctx.oldVars = map[string]Term{}
		}
		for _, n := range []string{name, sig.Params().At(i).Name(), fmt.Sprintf("arg%d", i)} {
			if n != "" && n != "_" {
				ctx.oldVars[n] = args[i]
				ctx.vars[n] = nv
			}
		}
		args[i] = nv // what the caller's slice holds after the call (callsite clauses see the new contents)
		return true
	}
	return false
}


// callsiteMatches: "Callee" matches every call of that callee, "Callee#k" only the call with ordinal k.
func callsiteMatches(pat, key string, ord int) bool {
	if i := strings.LastIndex(pat, "#"); i >= 0 {
		if pat[i+1:] != fmt.Sprint(ord) {
			return false
		}
		pat = pat[:i]
	}
	return key == pat || strings.HasSuffix(key, "/"+pat) || strings.HasSuffix(key, "."+pat)
}
