package main

// C15 — same specification and options give byte-identical output and diagnostics.
//
// Determinism is a 2-safety property; it is reduced to obligations on single functions:
//   nondet[...]   effect scan: no function of the processing packages reads the clock, the environment, a random
//                 source, pointer values as data, or starts goroutines (the decorative emoji excepted, whose
//                 only consumers are arguments of Infof);
//   comm[...]     every range over a Go map is order-independent: its body writes nothing but the element it is
//                 visiting, or it only collects keys/values into a slice that is sorted right after the loop;
//   total-order   comparators handed to sort.Quick (which shuffles with a time-seeded generator first) are total
//                 on distinct elements (SMT-discharged postconditions of the comparator closures).
// nondet/comm are decided on the typed AST (frame/effect obligations, syntactic); total-order by SMT.

import (
	"fmt"
	"go/ast"
	"go/token"
	"go/types"
	"strings"
)

var c15Pkgs = []string{"./cmd/emerge", "./internal/command", "./internal/generate/golang", "./internal/ebnf/lexer", "./internal/ebnf/parser",
	"./internal/ebnf/parser/spec", "./internal/regex/parser", "./internal/regex/parser/nfa"} // the packages the command imports (transitively)

var nondetCalls = map[string]string{
	"time.Now": "reads the clock", "time.Since": "reads the clock", "time.Until": "reads the clock",
	"os.Getenv": "reads the environment", "os.Environ": "reads the environment", "os.LookupEnv": "reads the environment",
	"os.Getpid": "per-process value", "os.Getppid": "per-process value", "os.Hostname": "per-machine value",
	"runtime.NumGoroutine": "scheduler state", "runtime.NumCPU": "per-machine value", "runtime.GOMAXPROCS": "scheduler state",
}

var emojiFuncs = map[string]bool{"getPlant": true, "getAnimal": true, "getFruit": true, "getFood": true}

func declaredInside(info *types.Info, id *ast.Ident, lo, hi token.Pos) bool {
	o := info.ObjectOf(id)
	return o != nil && o.Pos() >= lo && o.Pos() <= hi
}

func rootIdent(e ast.Expr) *ast.Ident {
	for {
		switch x := ast.Unparen(e).(type) {
		case *ast.Ident:
			return x
		case *ast.SelectorExpr:
			e = x.X
		case *ast.IndexExpr:
			e = x.X
		case *ast.StarExpr:
			e = x.X
		case *ast.SliceExpr:
			e = x.X
		default:
			return nil
		}
	}
}

func determinismObligations(c *CheckCtx) error {
	nMaps, nCalls := 0, 0
	orderExporters := map[string]string{} // method name -> obligation name: returns a slice in iteration order
	fail := func(name, what string, pos token.Position) {
		c.ExtraFindings = append(c.ExtraFindings, Finding{Obligation: name, What: fmt.Sprintf("%s:%d: %s", pos.Filename, pos.Line, what),
			Replay: map[string]any{"kind": "determinism obligation (typed AST)", "position": pos.String()}})
	}
	for _, pp := range c15Pkgs {
		p, err := loadOne(c.Repo, pp)
		if err != nil {
			return err
		}
		info := p.TypesInfo
		// does this package build hash tables (unordered iteration)? The generator package builds red-black trees only.
		pkgUsesHashTables := false
		for _, f := range p.Syntax {
			if strings.HasSuffix(p.Fset.Position(f.Pos()).Filename, "_test.go") {
				continue
			}
			ast.Inspect(f, func(n ast.Node) bool {
				if sel, ok := n.(*ast.SelectorExpr); ok && strings.HasPrefix(sel.Sel.Name, "New") && strings.HasSuffix(sel.Sel.Name, "HashTable") {
					if id, ok := sel.X.(*ast.Ident); ok && id.Name == "symboltable" {
						pkgUsesHashTables = true
					}
				}
				return true
			})
		}
		for _, f := range p.Syntax {
			fname := p.Fset.Position(f.Pos()).Filename
			if strings.HasSuffix(fname, "_test.go") {
				continue
			}
			for _, d := range f.Decls {
				fd, ok := d.(*ast.FuncDecl)
				if !ok || fd.Body == nil {
					continue
				}
				fnName := fd.Name.Name
				if fd.Recv != nil && len(fd.Recv.List) > 0 {
					fnName = exprString(stripStar(fd.Recv.List[0].Type)) + "." + fnName
				}
				key := p.PkgPath + "." + fnName
				ordMap := 0
				// statement lists, to find "the statement after the loop"
				var walkBlock func(list []ast.Stmt)
				checkRange := func(rs *ast.RangeStmt, next ast.Stmt) {
					tv, ok := info.Types[rs.X]
					if !ok {
						return
					}
					what := "a Go map"
					if _, isMap := tv.Type.Underlying().(*types.Map); !isMap {
						// an iterator over a hash table of the dependency: its All() shuffles the slots with a time-seeded
						// generator, so the order is random by design (the red-black tables iterate in key order)
						if !pkgUsesHashTables || !isSymbolTableAll(info, rs.X) {
							return
						}
						what = "a hash-table iterator (symboltable All(): shuffled order)"
					}
					_ = what
					nMaps++
					name := fmt.Sprintf("%s#comm[%d]", key, ordMap)
					ordMap++
					pos := p.Fset.Position(rs.Pos())
					// (ii) collect-then-sort (possibly through a filter that looks at the element only)
					body1 := rs.Body.List
					if len(body1) == 1 {
						if ifs, ok := body1[0].(*ast.IfStmt); ok && ifs.Else == nil && ifs.Init == nil && len(ifs.Body.List) == 1 && pureCond(ifs.Cond) {
							body1 = ifs.Body.List
						}
					}
					if len(body1) == 1 {
						if as, ok := body1[0].(*ast.AssignStmt); ok && len(as.Lhs) == 1 && len(as.Rhs) == 1 {
							if call, ok := as.Rhs[0].(*ast.CallExpr); ok && exprString(call.Fun) == "append" && len(call.Args) >= 1 && exprString(call.Args[0]) == exprString(as.Lhs[0]) {
								if es, ok := next.(*ast.ExprStmt); ok {
									if sc, ok := es.X.(*ast.CallExpr); ok && len(sc.Args) >= 1 && exprString(sc.Args[0]) == exprString(as.Lhs[0]) {
										switch exprString(sc.Fun) {
										case "slices.Sort", "sort.Strings", "sort.Ints", "sort.Quick", "slices.SortFunc", "sort.Slice", "sort.Sort":
											return
										}
									}
								}
								// (iii) the unsorted slice is what the function returns: allowed only if every caller hands it
								// straight to a consumer that builds a set from it (checked after the scan)
								if rt, ok := next.(*ast.ReturnStmt); ok && len(rt.Results) == 1 && exprString(rt.Results[0]) == exprString(as.Lhs[0]) {
									orderExporters[fd.Name.Name] = name
									return
								}
								fail(name, "range over "+what+" collects into "+exprString(as.Lhs[0])+" but the slice is not sorted right after the loop: its order is the iteration order", pos)
								return
							}
						}
					}
					// (i) element-local: nothing declared outside the loop is written, no call except on the element
					bad := ""
					lo, hi := rs.Pos(), rs.End()
					ast.Inspect(rs.Body, func(n ast.Node) bool {
						if bad != "" {
							return false
						}
						switch x := n.(type) {
						case *ast.AssignStmt:
							for _, l := range x.Lhs {
								if id := rootIdent(l); id != nil && id.Name != "_" && !declaredInside(info, id, lo, hi) {
									bad = "assigns " + exprString(l)
								}
							}
						case *ast.IncDecStmt:
							if id := rootIdent(x.X); id != nil && !declaredInside(info, id, lo, hi) {
								bad = "updates " + exprString(x.X)
							}
						case *ast.CallExpr:
							fn := exprString(x.Fun)
							if tvf, ok := info.Types[x.Fun]; ok && tvf.IsType() {
								return true
							}
							if id := identOf(x.Fun); id != nil {
								if _, isB := info.Uses[id].(*types.Builtin); isB && (fn == "len" || fn == "cap" || fn == "append") {
									return true
								}
							}
							// a call whose every argument (and receiver) is rooted at something declared in the loop
							ok := true
							for _, a := range x.Args {
								if id := rootIdent(a); id == nil || !declaredInside(info, id, lo, hi) {
									if _, isLit := ast.Unparen(a).(*ast.BasicLit); !isLit {
										ok = false
									}
								}
							}
							if sel, isSel := ast.Unparen(x.Fun).(*ast.SelectorExpr); isSel {
								if isPkg := isPkgName(info, sel.X); !isPkg {
									if id := rootIdent(sel.X); id == nil || !declaredInside(info, id, lo, hi) {
										ok = false
									}
								}
							}
							if !ok {
								bad = "calls " + fn + " with state from outside the loop"
							}
						case *ast.ReturnStmt, *ast.BranchStmt:
							bad = "leaves the loop early (which element is seen first depends on the order)"
						}
						return true
					})
					if bad != "" {
						fail(name, "range over "+what+" whose body "+bad+": the effect depends on the iteration order", pos)
					}
				}
				walkBlock = func(list []ast.Stmt) {
					for i, st := range list {
						var next ast.Stmt
						if i+1 < len(list) {
							next = list[i+1]
						}
						if rs, ok := st.(*ast.RangeStmt); ok {
							checkRange(rs, next)
						}
						ast.Inspect(st, func(n ast.Node) bool {
							if b, ok := n.(*ast.BlockStmt); ok && n != st {
								walkBlock(b.List)
								return false
							}
							if cc, ok := n.(*ast.CaseClause); ok {
								walkBlock(cc.Body)
								return false
							}
							return true
						})
					}
				}
				walkBlock(fd.Body.List)
				// effect scan
				ast.Inspect(fd.Body, func(n ast.Node) bool {
					if n == nil {
						return true
					}
					pos := p.Fset.Position(n.Pos())
					switch x := n.(type) {
					case *ast.GoStmt:
						fail(key+"#nondet[go]", "starts a goroutine: completion order is scheduling-dependent", pos)
					case *ast.SelectStmt:
						fail(key+"#nondet[select]", "select statement: choice among ready channels is random", pos)
					case *ast.CallExpr:
						nCalls++
						fn := exprString(x.Fun)
						if why, ok := nondetCalls[fn]; ok {
							fail(key+"#nondet["+fn+"]", "calls "+fn+" ("+why+")", pos)
						}
						if strings.HasPrefix(fn, "rand.") && !emojiFuncs[fd.Name.Name] {
							fail(key+"#nondet["+fn+"]", "calls "+fn+" (random source) outside the decorative emoji functions", pos)
						}
						for _, a := range x.Args {
							if bl, ok := a.(*ast.BasicLit); ok && bl.Kind == token.STRING && strings.Contains(bl.Value, "%p") {
								fail(key+"#nondet[%p]", "formats a pointer value", pos)
							}
						}
						// the emoji may only be an argument of Infof
						if id := identOf(x.Fun); id != nil && emojiFuncs[id.Name] {
							// found as a call; its parent must be an Infof call: checked by the enclosing-call scan below
						}
					}
					return true
				})
				// emoji consumers
				ast.Inspect(fd.Body, func(n ast.Node) bool {
					call, ok := n.(*ast.CallExpr)
					if !ok {
						return true
					}
					isInfof := strings.HasSuffix(exprString(call.Fun), "Infof")
					for _, a := range call.Args {
						if ac, ok := ast.Unparen(a).(*ast.CallExpr); ok {
							if id := identOf(ac.Fun); id != nil && emojiFuncs[id.Name] && !isInfof {
								fail(key+"#nondet[emoji]", "the decorative random emoji flows into "+exprString(call.Fun)+", not only into progress messages", p.Fset.Position(call.Pos()))
							}
						}
					}
					return true
				})
				ast.Inspect(fd.Body, func(n ast.Node) bool {
					// emoji assigned to a variable / returned: not allowed either
					if as, ok := n.(*ast.AssignStmt); ok && !emojiFuncs[fd.Name.Name] {
						for _, r := range as.Rhs {
							if ac, ok := ast.Unparen(r).(*ast.CallExpr); ok {
								if id := identOf(ac.Fun); id != nil && emojiFuncs[id.Name] {
									fail(key+"#nondet[emoji]", "the decorative random emoji is stored in a variable", p.Fset.Position(as.Pos()))
								}
							}
						}
					}
					return true
				})
			}
		}
	}
	// (iii) continued: every call of a function that returns a slice in iteration order must be, directly, an argument of a
	// constructor that builds a set from it (A-SET: grammar.NewCFG puts terminals, non-terminals and productions into sets)
	setConsumers := map[string]bool{"grammar.NewCFG": true}
	if len(orderExporters) > 0 {
		for _, pp := range c15Pkgs {
			p, err := loadOne(c.Repo, pp)
			if err != nil {
				return err
			}
			for _, f := range p.Syntax {
				if strings.HasSuffix(p.Fset.Position(f.Pos()).Filename, "_test.go") {
					continue
				}
				consumed := map[*ast.CallExpr]bool{}
				ast.Inspect(f, func(n ast.Node) bool {
					if call, ok := n.(*ast.CallExpr); ok && setConsumers[exprString(call.Fun)] {
						for _, a := range call.Args {
							if ac, ok := ast.Unparen(a).(*ast.CallExpr); ok {
								consumed[ac] = true
							}
						}
					}
					return true
				})
				ast.Inspect(f, func(n ast.Node) bool {
					call, ok := n.(*ast.CallExpr)
					if !ok {
						return true
					}
					sel, ok := ast.Unparen(call.Fun).(*ast.SelectorExpr)
					if !ok {
						return true
					}
					if name, isExp := orderExporters[sel.Sel.Name]; isExp && !consumed[call] {
						if tv, ok := p.TypesInfo.Types[sel.X]; ok && strings.Contains(tv.Type.String(), "SymbolTable") {
							fail(name, "returns its elements in the table's (random) iteration order and this call does not hand them straight to a set constructor", p.Fset.Position(call.Pos()))
						}
					}
					return true
				})
			}
		}
		c.Notes = append(c.Notes, fmt.Sprintf("A-SET: %d functions return a slice in iteration order; every call site passes it directly to grammar.NewCFG, which builds sets from its arguments (order-insensitive consumer, assumed)", len(orderExporters)))
	}
	c.Notes = append(c.Notes, fmt.Sprintf("determinism scan: %d packages, %d calls inspected, %d unordered ranges (Go maps and hash-table iterators) classified (element-local, collect-then-sort, or handed to a set constructor)", len(c15Pkgs), nCalls, nMaps))
	return nil
}

func stripStar(e ast.Expr) ast.Expr {
	if s, ok := e.(*ast.StarExpr); ok {
		return s.X
	}
	return e
}

func init() {
	register(&PropSpec{
		ID: "C15", Level: "other",
		Pkgs:    []string{"./internal/ebnf/parser/spec"},
		Prepare: prepareAll,
		Extra:   determinismObligations,
		Select: []Selector{
			{Units: specPkgRe + `SymbolTable\.Definitions(\$1)?$`},
			{Units: specPkgRe + `SymbolTable\.(ensureDistinctDefs|ensureSingleDefs)(\$1)?$`, Kinds: `^(post|inv-init|inv-pres|refine|vacuity)$`},
		},
		Explain: "Determinism (a 2-safety property) is reduced to per-function obligations. Decided on the typed AST (syntactic effect/frame obligations, not SMT): no function of the eight packages the command is built from (the working directory, the default of -out, counts as an option) starts a goroutine, selects, reads the clock, the environment, per-process values or a random source (the decorative emoji excepted, and it flows only into Infof arguments) or formats pointers; every range over a Go map either touches only the element it visits or collects into a slice that is sorted right after the loop (the two loops that did not - accepting-state lists in Spec.DFA, duplicate-value diagnostics - were repaired). SMT-discharged: the comparator of Definitions is total on distinct terminals (sort.Quick shuffles with a time-seeded generator, so a tie would come out in random order) and Definitions returns exactly the singly-defined terminals. Assumed (A-DEP): the dependency's hash tables iterate in slot order, a function of unseeded FNV hashes of the keys; red-black tables iterate in key order; grammar.CmpProduction is total. NOT decided: equality of outputs across fresh processes as such (a contract relates one call's inputs to its outputs; covered only through 'no per-process input'), Spec.DFA's use of the dependency's CombineDFA.",
		Trusted: []string{"A-DEP: hash-table iteration order is a function of the keys (hash.HashFuncForString has no per-process seed: read off its source)", "A-DEP: grammar.CmpProduction / CmpTerminal are total orders"},
	})
}

// pureCond: a filter condition made of selectors, indexing, comparisons, literals and len/cap only
func pureCond(e ast.Expr) bool {
	ok := true
	ast.Inspect(e, func(n ast.Node) bool {
		if c, isCall := n.(*ast.CallExpr); isCall {
			if fn := exprString(c.Fun); fn != "len" && fn != "cap" {
				ok = false
			}
		}
		return ok
	})
	return ok
}

// isSymbolTableAll: x is a call <table>.All() on a value whose type comes from the dependency's symboltable package.
func isSymbolTableAll(info *types.Info, x ast.Expr) bool {
	call, ok := ast.Unparen(x).(*ast.CallExpr)
	if !ok {
		return false
	}
	sel, ok := ast.Unparen(call.Fun).(*ast.SelectorExpr)
	if !ok || sel.Sel.Name != "All" {
		return false
	}
	tv, ok := info.Types[sel.X]
	if !ok {
		return false
	}
	return strings.Contains(tv.Type.String(), "moorara/algo/symboltable.") && !strings.Contains(tv.Type.String(), "OrderedSymbolTable")
}
