package main

// Verification-condition generation state: units, symbolic state, obligations.

import (
	"fmt"
	"go/ast"
	"go/token"
	"go/types"
	"sort"
	"strings"

	"golang.org/x/tools/go/packages"
)

type Unit struct {
	Key     string
	Pkg     *packages.Package
	Decl    *ast.FuncDecl
	Lit     *ast.FuncLit
	Sig     *types.Signature
	Body    *ast.BlockStmt
	Parent  *Unit
	Obj     *types.Func
	Closures []*Unit // in source order
	External bool   // loaded from the module cache (dependency)
}

func (u *Unit) Name() string { return u.Key }

type Obligation struct {
	Name    string
	Kind    string
	Unit    string
	Pos     token.Position
	Desc    string // human text (clause text or description)
	NFacts  int    // prefix of vc.facts that may be used
	Guard   string
	Goal    string
	vc      *VC
	Result  SolveResult
	Extra   []string // extra hypotheses (split cases)
	MustFail bool    // vacuity probe: expected to be refuted/unknown
	NoRetry  bool // listed known finding: not retried with a longer time-out
	Candidate bool
}

type State struct {
	guard string
	vars  map[*types.Var]Term
	names map[string]*types.Var
	heaps map[string]Term
	dead  bool
}

func (s *State) clone() *State {
	n := &State{guard: s.guard, dead: s.dead, vars: make(map[*types.Var]Term, len(s.vars)), names: make(map[string]*types.Var, len(s.names)), heaps: make(map[string]Term, len(s.heaps))}
	for k, v := range s.vars {
		n.vars[k] = v
	}
	for k, v := range s.names {
		n.names[k] = v
	}
	for k, v := range s.heaps {
		n.heaps[k] = v
	}
	return n
}

type exitRec struct {
	st      *State
	results []Term
	pos     token.Pos
}

type ctlFrame struct {
	label     string
	breaks    []*State
	continues []*State
	isLoop    bool
}

type VC struct {
	eng   *Engine
	U     *Universe
	unit  *Unit
	pkg   *packages.Package
	info  *types.Info
	fset  *token.FileSet
	contract *FuncContract

	consts []string // declare-const lines for fresh symbols
	facts  []string
	obls   []*Obligation
	nfresh int
	counters map[string]int

	heap0   map[string]Term
	heapSorts map[string]string
	entry   *State
	exits   []*exitRec
	ctl     []*ctlFrame
	loopOrd int
	cellVars map[*types.Var]bool // address-taken / captured-and-mutated locals live in the heap
	resultVars []*types.Var
	namedResults bool

	ghostDeclared map[string]bool
	ghostSorts    map[string]*ghostSig
	axiomsDone    map[*Clause]bool
	usedFiles     map[*ContractFile]bool
	pureDeclared  map[string]bool

	assumptions map[string]bool // A-* notes
	uncontracted map[string]bool
	unsupported []string
	calledAssumed map[string]bool
	defers []*ast.CallExpr
	pendingLabel string
	loopIndex map[ast.Node]int
	specErrors []string
	unitTypeArgs map[string]types.Type
	entryVariant string
	finalState *State
	finalResults []Term
	preludeCache string
	axiomCache string
	preludeAt int
	heapGen int
	dryDepth int
	loopStack []*loopSnap
	cbVars map[string]*types.Var
	cbinvV *types.Var
	clientinvV *types.Var
	implFacts  map[string]bool
	nquant     int
	frameCache *frameSpec
	loopWrites map[int]map[string]bool
	lastWritten map[string]bool
	owned []Term
	freshResult map[string]bool
	nonEscaping map[*types.Var]bool
}

type loopSnap struct {
	before, head *State
}

type ghostSig struct {
	Params []*Sort
	Ret    *Sort
}

func newVC(eng *Engine, u *Unit) *VC {
	vc := &VC{eng: eng, U: newUniverse(), unit: u, pkg: u.Pkg, info: u.Pkg.TypesInfo, fset: u.Pkg.Fset,
		counters: map[string]int{}, heap0: map[string]Term{}, heapSorts: map[string]string{}, cellVars: map[*types.Var]bool{},
		ghostDeclared: map[string]bool{}, ghostSorts: map[string]*ghostSig{}, axiomsDone: map[*Clause]bool{},
		usedFiles: map[*ContractFile]bool{}, pureDeclared: map[string]bool{},
		assumptions: map[string]bool{}, uncontracted: map[string]bool{}, calledAssumed: map[string]bool{}, freshResult: map[string]bool{}, nonEscaping: map[*types.Var]bool{}}
	return vc
}

func (vc *VC) fresh(prefix string, s *Sort) Term {
	vc.nfresh++
	n := fmt.Sprintf("%s!%d", smtName(prefix), vc.nfresh)
	vc.consts = append(vc.consts, fmt.Sprintf("(declare-const %s %s)", n, s.Name))
	return Term{n, s}
}

// bind introduces a name for a large term.
func (vc *VC) bind(prefix string, t Term) Term {
	if len(t.S) < 48 {
		return t
	}
	f := vc.fresh(prefix, t.Sort)
	vc.facts = append(vc.facts, sEq(f.S, t.S))
	return f
}

// bindHeap names a new heap value.
func (vc *VC) bindHeap(heap string, expr string) Term {
	sn := vc.heapSorts[heap]
	if sn == "" {
		return Term{expr, nil}
	}
	vc.nfresh++
	n := fmt.Sprintf("%s!%d", smtName(heap), vc.nfresh)
	vc.consts = append(vc.consts, fmt.Sprintf("(declare-const %s %s)", n, sn))
	vc.facts = append(vc.facts, sEq(n, expr))
	return Term{n, nil}
}

func (vc *VC) assume(st *State, f string) {
	if st.dead || f == "true" {
		return
	}
	g := vc.fresh("g", sortBool)
	vc.facts = append(vc.facts, sEq(g.S, sAnd(st.guard, f)))
	st.guard = g.S
}

// assumeFact adds an unconditional fact guarded by the current path.
func (vc *VC) fact(st *State, f string) {
	if f == "true" {
		return
	}
	vc.facts = append(vc.facts, sImp(st.guard, f))
}

func (vc *VC) position(p token.Pos) token.Position {
	if !p.IsValid() {
		return token.Position{}
	}
	return vc.fset.Position(p)
}

func (vc *VC) assert(st *State, kind string, goal string, pos token.Pos, desc string) *Obligation {
	if st.dead {
		return nil
	}
	n := vc.counters[kind]
	vc.counters[kind] = n + 1
	o := &Obligation{Name: fmt.Sprintf("%s#%s[%d]", vc.unit.Key, kind, n), Kind: kind, Unit: vc.unit.Key,
		Pos: vc.position(pos), Desc: desc, NFacts: len(vc.facts), Guard: st.guard, Goal: goal, vc: vc}
	vc.obls = append(vc.obls, o)
	if goal != "true" {
		// continue under the assumption that the assertion held
		vc.assume(st, goal)
	}
	return o
}

func (vc *VC) assertNamed(st *State, name, kind string, goal string, pos token.Pos, desc string) *Obligation {
	if st.dead {
		return nil
	}
	o := &Obligation{Name: vc.unit.Key + "#" + name, Kind: kind, Unit: vc.unit.Key,
		Pos: vc.position(pos), Desc: desc, NFacts: len(vc.facts), Guard: st.guard, Goal: goal, vc: vc}
	vc.obls = append(vc.obls, o)
	if goal != "true" {
		vc.assume(st, goal)
	}
	return o
}

// query renders the SMT text of an obligation (negated goal).
func (o *Obligation) query() string { return o.render(true) }

// queryGround drops every quantified axiom and fact: a model of it is only a CANDIDATE counterexample
// (to be confirmed by replay on the real code).
func (o *Obligation) queryGround() string { return o.render(false) }

func (o *Obligation) render(full bool) string {
	vc := o.vc
	var b strings.Builder
	b.WriteString(vc.renderPrelude())
	for _, c := range vc.consts {
		b.WriteString(c)
		b.WriteByte('\n')
	}
	if full {
		b.WriteString(vc.axiomCache)
	} else {
		for _, l := range strings.Split(vc.axiomCache, "\n") {
			if !strings.Contains(l, "(forall ") && !strings.Contains(l, "(exists ") {
				b.WriteString(l)
				b.WriteByte('\n')
			}
		}
	}
	for _, f := range vc.facts[:o.NFacts] {
		if !full && (strings.Contains(f, "(forall ") || strings.Contains(f, "(exists ")) {
			continue
		}
		b.WriteString("(assert ")
		b.WriteString(f)
		b.WriteString(")\n")
	}
	for _, e := range o.Extra {
		fmt.Fprintf(&b, "(assert %s)\n", e)
	}
	fmt.Fprintf(&b, "(assert %s)\n", o.Guard)
	if o.Goal != "" {
		fmt.Fprintf(&b, "(assert (not %s))\n", o.Goal)
	}
	return b.String()
}

// ---------- state helpers ----------

func (vc *VC) heapGet(st *State, name string, sortName string, s *Sort) Term {
	if t, ok := st.heaps[name]; ok {
		return t
	}
	if t, ok := vc.heap0[name]; ok {
		return t
	}
	n := name + "!0"
	vc.heapSorts[name] = sortName
	vc.consts = append(vc.consts, fmt.Sprintf("(declare-const %s %s)", n, sortName))
	t := Term{n, s}
	vc.heap0[name] = t
	return t
}

func (vc *VC) heapSet(st *State, name string, t Term) {
	st.heaps[name] = t
}

// field heap for struct sort ss, field f: name and array sort
func fieldHeapName(ss *Sort, f *Field) (string, string) {
	return "H_" + ss.Name + "_" + smtName(f.Name), "(Array Int " + f.Sort.Name + ")"
}

func ptrHeapName(s *Sort) (string, string) {
	return "HP_" + smtName(s.Name), "(Array Int " + s.Name + ")"
}

// loadRef reads the value of sort s stored at reference ref.
func (vc *VC) loadRef(st *State, ref string, s *Sort) Term {
	if s.Kind == KStruct {
		if len(s.Fields) == 0 {
			return Term{"mk_" + s.Name, s}
		}
		var parts []string
		for i := range s.Fields {
			f := &s.Fields[i]
			parts = append(parts, vc.loadField(st, ref, s, f).S)
		}
		return Term{"(mk_" + s.Name + " " + strings.Join(parts, " ") + ")", s}
	}
	hn, hs := ptrHeapName(s)
	h := vc.heapGet(st, hn, hs, nil)
	return Term{"(select " + h.S + " " + ref + ")", s}
}

func (vc *VC) loadField(st *State, ref string, ss *Sort, f *Field) Term {
	hn, hs := fieldHeapName(ss, f)
	h := vc.heapGet(st, hn, hs, nil)
	return Term{"(select " + h.S + " " + ref + ")", f.Sort}
}

func (vc *VC) storeField(st *State, ref string, ss *Sort, f *Field, v string) {
	hn, hs := fieldHeapName(ss, f)
	h := vc.heapGet(st, hn, hs, nil)
	nh := vc.bindHeap(hn, "(store " + h.S + " " + ref + " " + v + ")")
	vc.heapSet(st, hn, nh)
}

func (vc *VC) storeRef(st *State, ref string, s *Sort, v string) {
	if s.Kind == KStruct {
		for i := range s.Fields {
			f := &s.Fields[i]
			vc.storeField(st, ref, s, f, "("+f.Sel+" "+v+")")
		}
		return
	}
	hn, hs := ptrHeapName(s)
	h := vc.heapGet(st, hn, hs, nil)
	nh := vc.bindHeap(hn, "(store " + h.S + " " + ref + " " + v + ")")
	vc.heapSet(st, hn, nh)
}

const allocHeap = "$alloc"

func (vc *VC) allocCounter(st *State) string {
	if t, ok := st.heaps[allocHeap]; ok {
		return t.S
	}
	if t, ok := vc.heap0[allocHeap]; ok {
		return t.S
	}
	vc.heapSorts[allocHeap] = "Int"
	vc.consts = append(vc.consts, "(declare-const $alloc!0 Int)")
	vc.facts = append(vc.facts, "(>= $alloc!0 0)")
	vc.heap0[allocHeap] = Term{"$alloc!0", sortInt}
	return "$alloc!0"
}

// newRef allocates a fresh reference (greater than every reference allocated so far).
func (vc *VC) newRef(st *State) string {
	a := vc.allocCounter(st)
	r := vc.fresh("ref", sortInt)
	vc.facts = append(vc.facts, sEq(r.S, "(+ "+a+" 1)"))
	st.heaps[allocHeap] = r
	return r.S
}

// validRef: every reference value held by the program at entry is <= alloc!0 (used for freshness reasoning).

func (vc *VC) lookupVar(st *State, v *types.Var) (Term, bool) {
	t, ok := st.vars[v]
	return t, ok
}

func (vc *VC) declareVar(st *State, v *types.Var, t Term) {
	st.vars[v] = t
	if v.Name() != "_" {
		st.names[v.Name()] = v
	}
}

// readVar returns the current value of a variable (loading from its cell if address-taken).
func (vc *VC) readVar(st *State, v *types.Var) Term {
	if t, ok := st.vars[v]; ok {
		if vc.cellVars[v] {
			return vc.loadRef(st, t.S, vc.U.sortOf(v.Type()))
		}
		return t
	}
	// package-level variable or captured variable: lazily create an initial symbol
	s := vc.U.sortOf(v.Type())
	pre := "v_" + v.Name()
	if v.Pkg() != nil && v.Parent() == v.Pkg().Scope() {
		pre = "gv_" + v.Pkg().Name() + "_" + v.Name()
	}
	key := "$var:" + pre + fmt.Sprintf("@%d", v.Pos())
	if t, ok := vc.heap0[key]; ok {
		return t
	}
	t := vc.fresh(pre, s)
	vc.heap0[key] = t
	vc.typeInvariant(nil, t)
	return t
}

func (vc *VC) writeVar(st *State, v *types.Var, t Term) {
	if vc.cellVars[v] {
		if ref, ok := st.vars[v]; ok {
			vc.storeRef(st, ref.S, vc.U.sortOf(v.Type()), t.S)
			return
		}
	}
	st.vars[v] = t
}

// typeInvariant asserts (as unconditional facts) range constraints of a fresh symbol.
func (vc *VC) typeInvariant(st *State, t Term) {
	switch t.Sort.Kind {
	case KInt:
		if lo, hi, ok := t.Sort.rangeOf(); ok {
			vc.facts = append(vc.facts, "(and (<= "+lo+" "+t.S+") (<= "+t.S+" "+hi+"))")
		}
	case KSlice:
		vc.facts = append(vc.facts, "(>= ("+t.Sort.Name+"_len "+t.S+") 0)")
	case KRef, KMap, KFunc:
		vc.facts = append(vc.facts, "(>= "+t.S+" 0)")
	}
}

// merge joins several states after a branch.
func (vc *VC) merge(states ...*State) *State {
	var live []*State
	for _, s := range states {
		if s != nil && !s.dead {
			live = append(live, s)
		}
	}
	if len(live) == 0 {
		return &State{dead: true, guard: "false", vars: map[*types.Var]Term{}, names: map[string]*types.Var{}, heaps: map[string]Term{}}
	}
	if len(live) == 1 {
		return live[0]
	}
	// ghost variables missing in a state hold their entry value there
	for name, obj := range vc.eng.ghostVarObj {
		any := false
		for _, s := range live {
			if _, ok := s.vars[obj]; ok {
				any = true
			}
		}
		if any {
			for _, s := range live {
				if _, ok := s.vars[obj]; !ok {
					s.vars[obj] = vc.readGhostVar(nil, vc.eng.ghostVars[name])
				}
			}
		}
	}
	out := live[0].clone()
	var gs []string
	for _, s := range live {
		gs = append(gs, s.guard)
	}
	g := vc.fresh("g", sortBool)
	vc.facts = append(vc.facts, sEq(g.S, sOr(gs...)))
	out.guard = g.S
	// variables
	var vkeys []*types.Var
	for v := range live[0].vars {
		vkeys = append(vkeys, v)
	}
	sort.Slice(vkeys, func(i, j int) bool { return vkeys[i].Pos() < vkeys[j].Pos() })
	for _, v := range vkeys {
		t0 := live[0].vars[v]
		same, all := true, true
		for _, s := range live[1:] {
			t, ok := s.vars[v]
			if !ok {
				all = false
				break
			}
			if t.S != t0.S {
				same = false
			}
		}
		if !all {
			delete(out.vars, v)
			continue
		}
		if same {
			continue
		}
		expr := live[len(live)-1].vars[v].S
		for i := len(live) - 2; i >= 0; i-- {
			expr = sIte(live[i].guard, live[i].vars[v].S, expr)
		}
		f := vc.fresh(v.Name(), t0.Sort)
		vc.facts = append(vc.facts, sEq(f.S, expr))
		out.vars[v] = f
	}
	// heaps
	hk := map[string]bool{}
	for _, s := range live {
		for k := range s.heaps {
			hk[k] = true
		}
	}
	var hkeys []string
	for k := range hk {
		hkeys = append(hkeys, k)
	}
	sort.Strings(hkeys)
	for _, k := range hkeys {
		get := func(s *State) (Term, bool) {
			if t, ok := s.heaps[k]; ok {
				return t, true
			}
			t, ok := vc.heap0[k]
			return t, ok
		}
		t0, ok0 := get(live[0])
		if !ok0 {
			// heap first touched inside a branch: its initial constant exists in heap0 by construction
			continue
		}
		same := true
		for _, s := range live[1:] {
			t, _ := get(s)
			if t.S != t0.S {
				same = false
			}
		}
		if same {
			out.heaps[k] = t0
			continue
		}
		last, _ := get(live[len(live)-1])
		expr := last.S
		for i := len(live) - 2; i >= 0; i-- {
			t, _ := get(live[i])
			expr = sIte(live[i].guard, t.S, expr)
		}
		sortName := vc.heapSorts[k]
		if sortName == "" {
			sortName = "Int"
		}
		vc.nfresh++
		n := fmt.Sprintf("%s!%d", smtName(k), vc.nfresh)
		vc.consts = append(vc.consts, fmt.Sprintf("(declare-const %s %s)", n, sortName))
		vc.facts = append(vc.facts, sEq(n, expr))
		// pointwise form of the merge, so that a read of the merged heap brings up the corresponding reads of the
		// branch heaps (quantified facts about a branch heap are triggered by reads of that heap only)
		if strings.HasPrefix(sortName, "(Array ") && len(live) == 2 {
			key := sortName[7:]
			if i := strings.IndexByte(key, ' '); i >= 0 && !strings.HasPrefix(key, "(") {
				key = key[:i]
				a, _ := get(live[0])
				vc.facts = append(vc.facts, fmt.Sprintf("(forall ((x!m %s)) (! (= (select %s x!m) (ite %s (select %s x!m) (select %s x!m))) :pattern ((select %s x!m))))", key, n, live[0].guard, a.S, last.S, n))
			}
		}
		out.heaps[k] = Term{n, t0.Sort}
	}
	// names: keep only names whose var survived
	for n, v := range out.names {
		if _, ok := out.vars[v]; !ok {
			if _, isCell := vc.heap0["$var:"+n]; !isCell {
				delete(out.names, n)
			}
		}
	}
	return out
}

func deadState() *State {
	return &State{dead: true, guard: "false", vars: map[*types.Var]Term{}, names: map[string]*types.Var{}, heaps: map[string]Term{}}
}

func (vc *VC) note(a string) { vc.assumptions[a] = true }

func (vc *VC) unsupportedf(n ast.Node, f string, a ...any) {
	msg := fmt.Sprintf(f, a...)
	if n != nil {
		msg = vc.position(n.Pos()).String() + ": " + msg
	}
	vc.unsupported = append(vc.unsupported, msg)
}
