package main

// Go types -> SMT sorts, and the per-unit "universe" (prelude of declarations).

import (
	"fmt"
	"go/types"
	"sort"
	"strings"
)

type SortKind int

const (
	KInt SortKind = iota
	KBool
	KStr
	KRef    // pointer; SMT Int; Elem = pointee
	KStruct // SMT datatype
	KSlice  // SMT datatype (arr,len)
	KArr    // fixed array: (Array Int Elem)
	KMap    // Go map: reference (Int); Key, Elem
	KAny    // interface value
	KFunc   // function value: opaque Int
	KSet    // ghost set[T]: (Array T Bool)
	KOpaque // anything else: uninterpreted sort
	KTuple  // multiple results (executor-level only)
)

type Field struct {
	Name string
	Sort *Sort
	Sel  string // datatype selector name
}

type Sort struct {
	Kind   SortKind
	Name   string // SMT sort expression
	Elem   *Sort
	Key    *Sort
	Fields []Field
	Len    int64
	GoT    types.Type // representative Go type (may be nil for ghost sorts)
	Bits   int        // for KInt: 0 = unbounded (int), else width; Signed
	Signed bool
	Tuple  []*Sort
	IsMap  bool // ghost map (KSet with arbitrary element sort)
}

func (s *Sort) String() string { return s.Name }

type Term struct {
	S    string
	Sort *Sort
}

type Universe struct {
	decls    []string // ordered declarations (sorts, datatypes, funcs)
	axioms   []string
	sorts    map[string]*Sort // by key
	declared map[string]bool
	lits     map[string]string // string literal -> const name
	litOrder []string
	typeIDs  map[string]int // Go type string -> dynamic type id
	typeByID []types.Type
	boxes    map[string]bool
	needStrExt bool
	nameOf   map[string]string // full Go type string -> unique short SMT name
	nameUsed map[string]string // short SMT name -> full Go type string
	imports  []string // raw SMT text blocks appended after decls
}

var (
	sortInt  = &Sort{Kind: KInt, Name: "Int", Signed: true, GoT: types.Typ[types.Int]}
	sortBool = &Sort{Kind: KBool, Name: "Bool", GoT: types.Typ[types.Bool]}
	sortStr  = &Sort{Kind: KStr, Name: "Str", GoT: types.Typ[types.String]}
	sortAny  = &Sort{Kind: KAny, Name: "Any"}
	sortFunc = &Sort{Kind: KFunc, Name: "Int"}
)

func newUniverse() *Universe {
	u := &Universe{sorts: map[string]*Sort{}, declared: map[string]bool{}, lits: map[string]string{}, typeIDs: map[string]int{}, boxes: map[string]bool{}}
	u.decls = append(u.decls,
		"(declare-sort Str 0)",
		"(declare-sort Any 0)",
		"(declare-fun slen (Str) Int)",
		"(declare-fun sat (Str Int) Int)",
		"(declare-fun scat (Str Str) Str)",
		"(declare-fun ssub (Str Int Int) Str)",
		"(declare-fun dyn (Any) Int)",
		"(declare-const anynil Any)",
	)
	u.axioms = append(u.axioms,
		"(forall ((s Str)) (! (>= (slen s) 0) :pattern ((slen s))))",
		"(= (dyn anynil) 0)",
		"(forall ((a Str) (b Str)) (! (= (slen (scat a b)) (+ (slen a) (slen b))) :pattern ((scat a b))))",
		"(forall ((a Str) (b Str) (i Int)) (! (= (sat (scat a b) i) (ite (< i (slen a)) (sat a i) (sat b (- i (slen a))))) :pattern ((sat (scat a b) i))))",
		"(forall ((s Str) (i Int) (j Int)) (! (=> (and (<= 0 i) (<= i j) (<= j (slen s))) (= (slen (ssub s i j)) (- j i))) :pattern ((ssub s i j))))",
		"(forall ((s Str) (i Int) (j Int) (k Int)) (! (=> (and (<= 0 i) (<= i j) (<= j (slen s)) (<= 0 k) (< k (- j i))) (= (sat (ssub s i j) k) (sat s (+ i k)))) :pattern ((sat (ssub s i j) k))))",
		"(forall ((s Str) (i Int)) (! (and (<= 0 (sat s i)) (<= (sat s i) 255)) :pattern ((sat s i))))",
	)
	u.lit("") // the empty string is always present
	return u
}

func (u *Universe) lit(s string) string {
	if n, ok := u.lits[s]; ok {
		return n
	}
	n := fmt.Sprintf("lit%d", len(u.lits))
	u.lits[s] = n
	u.litOrder = append(u.litOrder, s)
	return n
}

func smtName(s string) string {
	var b strings.Builder
	for _, r := range s {
		switch {
		case r >= 'a' && r <= 'z', r >= 'A' && r <= 'Z', r >= '0' && r <= '9', r == '_':
			b.WriteRune(r)
		case r == '.' || r == '/':
			b.WriteByte('_')
		case r == '*':
			b.WriteString("P")
		case r == '[':
			b.WriteString("L")
		case r == ']':
			b.WriteString("R")
		default:
			b.WriteString("_")
		}
	}
	return b.String()
}

func shortTypeName(t types.Type) string {
	return types.TypeString(t, func(p *types.Package) string { return p.Name() })
}

// typeID returns a stable (per universe) positive id of a Go type for dynamic type tests.
func (u *Universe) typeID(t types.Type) int {
	t = canonType(t)
	k := types.TypeString(t, nil)
	if id, ok := u.typeIDs[k]; ok {
		return id
	}
	id := len(u.typeIDs) + 1
	u.typeIDs[k] = id
	u.typeByID = append(u.typeByID, t)
	return id
}

// canonType: rune/byte are spellings of int32/uint8 - also inside slices, arrays, pointers and maps ([]rune and
// []int32 are one dynamic type).
func canonType(t types.Type) types.Type {
	t = types.Unalias(t)
	switch x := t.(type) {
	case *types.Basic:
		if x.Kind() < types.UntypedBool {
			return types.Typ[x.Kind()]
		}
	case *types.Slice:
		if e := canonType(x.Elem()); e != x.Elem() {
			return types.NewSlice(e)
		}
	case *types.Array:
		if e := canonType(x.Elem()); e != x.Elem() {
			return types.NewArray(e, x.Len())
		}
	case *types.Pointer:
		if e := canonType(x.Elem()); e != x.Elem() {
			return types.NewPointer(e)
		}
	case *types.Map:
		k, e := canonType(x.Key()), canonType(x.Elem())
		if k != x.Key() || e != x.Elem() {
			return types.NewMap(k, e)
		}
	}
	return t
}

// uniqName: SMT-safe short name of a Go type; two different types with the same short name
// (sync.Mutex and internal/sync.Mutex) get distinct names.
func (u *Universe) uniqName(t types.Type) string {
	t = canonType(t)
	if u.nameOf == nil {
		u.nameOf, u.nameUsed = map[string]string{}, map[string]string{}
	}
	full := types.TypeString(t, nil)
	if n, ok := u.nameOf[full]; ok {
		return n
	}
	base := smtName(shortTypeName(t))
	n := base
	for i := 2; ; i++ {
		if prev, used := u.nameUsed[n]; !used || prev == full {
			break
		}
		n = fmt.Sprintf("%s_%d", base, i)
	}
	u.nameOf[full] = n
	u.nameUsed[n] = full
	return n
}

// box/unbox function names for a Go type held in an interface.
func (u *Universe) boxFuncs(t types.Type, s *Sort) (box, unbox string) {
	k := u.uniqName(t)
	box, unbox = "box_"+k, "unbox_"+k
	if !u.boxes[k] {
		u.boxes[k] = true
		id := u.typeID(t)
		u.decls = append(u.decls,
			fmt.Sprintf("(declare-fun %s (%s) Any)", box, s.Name),
			fmt.Sprintf("(declare-fun %s (Any) %s)", unbox, s.Name))
		u.axioms = append(u.axioms,
			fmt.Sprintf("(forall ((x %s)) (! (and (= (%s (%s x)) x) (= (dyn (%s x)) %d)) :pattern ((%s x))))", s.Name, unbox, box, box, id, box),
			fmt.Sprintf("(forall ((a Any)) (! (=> (= (dyn a) %d) (= (%s (%s a)) a)) :pattern ((%s a))))", id, box, unbox, unbox))
	}
	return
}

func intSortFor(b *types.Basic) *Sort {
	switch b.Kind() {
	case types.Int8:
		return &Sort{Kind: KInt, Name: "Int", Bits: 8, Signed: true, GoT: b}
	case types.Int16:
		return &Sort{Kind: KInt, Name: "Int", Bits: 16, Signed: true, GoT: b}
	case types.Int32, types.UntypedRune:
		return &Sort{Kind: KInt, Name: "Int", Bits: 32, Signed: true, GoT: b}
	case types.Int64:
		return &Sort{Kind: KInt, Name: "Int", Bits: 64, Signed: true, GoT: b}
	case types.Int, types.UntypedInt:
		return &Sort{Kind: KInt, Name: "Int", Bits: 0, Signed: true, GoT: b}
	case types.Uint8:
		return &Sort{Kind: KInt, Name: "Int", Bits: 8, GoT: b}
	case types.Uint16:
		return &Sort{Kind: KInt, Name: "Int", Bits: 16, GoT: b}
	case types.Uint32:
		return &Sort{Kind: KInt, Name: "Int", Bits: 32, GoT: b}
	case types.Uint64, types.Uint, types.Uintptr:
		return &Sort{Kind: KInt, Name: "Int", Bits: 64, GoT: b}
	}
	return nil
}

// rangeOf returns the closed range of a sized integer sort as SMT terms ("" if unbounded).
func (s *Sort) rangeOf() (lo, hi string, ok bool) {
	if s.Kind != KInt {
		return "", "", false
	}
	bits := s.Bits
	if bits == 0 {
		bits = 64
		if !s.Signed {
			return "", "", false
		}
	}
	pow := func(n int) string {
		// 2^n as decimal
		v := new(bigInt).setPow2(n)
		return v.String()
	}
	if s.Signed {
		return "(- " + pow(bits-1) + ")", "(- " + pow(bits-1) + " 1)", true
	}
	return "0", "(- " + pow(bits) + " 1)", true
}

// tiny bigint for powers of two (avoid importing math/big everywhere)
type bigInt struct{ digits []int }

func (b *bigInt) setPow2(n int) *bigInt {
	b.digits = []int{1}
	for i := 0; i < n; i++ {
		carry := 0
		for j := range b.digits {
			v := b.digits[j]*2 + carry
			b.digits[j] = v % 10
			carry = v / 10
		}
		if carry > 0 {
			b.digits = append(b.digits, carry)
		}
	}
	return b
}
func (b *bigInt) String() string {
	var sb strings.Builder
	for i := len(b.digits) - 1; i >= 0; i-- {
		sb.WriteByte(byte('0' + b.digits[i]))
	}
	return sb.String()
}

func (u *Universe) sortOf(t types.Type) *Sort {
	t = types.Unalias(t)
	key := types.TypeString(t, nil)
	if s, ok := u.sorts[key]; ok {
		return s
	}
	var s *Sort
	switch tt := t.(type) {
	case *types.Basic:
		switch {
		case tt.Info()&types.IsBoolean != 0:
			s = &Sort{Kind: KBool, Name: "Bool", GoT: t}
		case tt.Info()&types.IsInteger != 0:
			s = intSortFor(tt)
		case tt.Info()&types.IsString != 0:
			s = &Sort{Kind: KStr, Name: "Str", GoT: t}
		case tt.Kind() == types.UntypedNil:
			s = &Sort{Kind: KRef, Name: "Int", GoT: t}
		case tt.Kind() == types.UnsafePointer:
			s = &Sort{Kind: KRef, Name: "Int", GoT: t}
		default:
			s = u.opaque(t)
		}
	case *types.Named:
		und := tt.Underlying()
		switch ut := und.(type) {
		case *types.Struct:
			s = u.structSort(tt, ut)
		case *types.Interface:
			s = &Sort{Kind: KAny, Name: "Any", GoT: t}
		default:
			us := u.sortOf(und)
			cp := *us
			cp.GoT = t
			s = &cp
		}
	case *types.Struct:
		s = u.structSort(t, tt)
	case *types.Pointer:
		s = &Sort{Kind: KRef, Name: "Int", GoT: t}
		u.sorts[key] = s
		s.Elem = u.sortOf(tt.Elem())
		return s
	case *types.Slice:
		el := u.sortOf(tt.Elem())
		s = u.sliceSort(el)
		cp := *s
		cp.GoT = t
		cp.Elem = el // keep the precise element sort (pointee information) although the SMT datatype is shared
		s = &cp
	case *types.Array:
		el := u.sortOf(tt.Elem())
		s = &Sort{Kind: KArr, Name: "(Array Int " + el.Name + ")", Elem: el, Len: tt.Len(), GoT: t}
	case *types.Map:
		s = &Sort{Kind: KMap, Name: "Int", GoT: t}
		u.sorts[key] = s
		s.Key = u.sortOf(tt.Key())
		s.Elem = u.sortOf(tt.Elem())
		return s
	case *types.Interface:
		s = &Sort{Kind: KAny, Name: "Any", GoT: t}
	case *types.Signature:
		s = &Sort{Kind: KFunc, Name: "Int", GoT: t}
	case *types.TypeParam:
		// an uninstantiated type parameter: treat via its constraint's core as opaque Any-like value
		s = u.opaque(t)
	case *types.Tuple:
		s = &Sort{Kind: KTuple, Name: "<tuple>", GoT: t}
		for i := 0; i < tt.Len(); i++ {
			s.Tuple = append(s.Tuple, u.sortOf(tt.At(i).Type()))
		}
	default:
		s = u.opaque(t)
	}
	if s == nil {
		s = u.opaque(t)
	}
	u.sorts[key] = s
	return s
}

func (u *Universe) opaque(t types.Type) *Sort {
	n := "O_" + u.uniqName(t)
	if !u.declared[n] {
		u.declared[n] = true
		u.decls = append(u.decls, fmt.Sprintf("(declare-sort %s 0)", n))
		u.decls = append(u.decls, fmt.Sprintf("(declare-const zero_%s %s)", n, n))
	}
	return &Sort{Kind: KOpaque, Name: n, GoT: t}
}

func (u *Universe) sliceSort(el *Sort) *Sort {
	n := "Sl_" + smtName(el.Name)
	key := "slice:" + n
	if s, ok := u.sorts[key]; ok {
		return s
	}
	s := &Sort{Kind: KSlice, Name: n, Elem: el}
	if !u.declared[n] {
		u.declared[n] = true
		u.decls = append(u.decls, fmt.Sprintf("(declare-datatypes ((%s 0)) (((mk_%s (%s_arr (Array Int %s)) (%s_len Int)))))", n, n, n, el.Name, n))
	}
	u.sorts[key] = s
	return s
}

func (u *Universe) setSort(el *Sort) *Sort {
	return &Sort{Kind: KSet, Name: "(Array " + el.Name + " Bool)", Elem: el}
}

func (u *Universe) structSort(t types.Type, st *types.Struct) *Sort {
	n := "T_" + u.uniqName(t)
	s := &Sort{Kind: KStruct, Name: n, GoT: t}
	u.sorts[types.TypeString(t, nil)] = s
	var fl []string
	seenSel := map[string]bool{}
	for i := 0; i < st.NumFields(); i++ {
		f := st.Field(i)
		fs := u.sortOf(f.Type())
		sel := n + "_" + smtName(f.Name())
		if f.Name() == "_" || seenSel[sel] {
			sel = fmt.Sprintf("%s_f%d", sel, i)
		}
		seenSel[sel] = true
		s.Fields = append(s.Fields, Field{Name: f.Name(), Sort: fs, Sel: sel})
		fl = append(fl, fmt.Sprintf("(%s %s)", sel, fs.Name))
	}
	if !u.declared[n] {
		u.declared[n] = true
		if len(fl) == 0 {
			u.decls = append(u.decls, fmt.Sprintf("(declare-datatypes ((%s 0)) (((mk_%s))))", n, n))
		} else {
			u.decls = append(u.decls, fmt.Sprintf("(declare-datatypes ((%s 0)) (((mk_%s %s))))", n, n, strings.Join(fl, " ")))
		}
	}
	return s
}

func (s *Sort) field(name string) *Field {
	for i := range s.Fields {
		if s.Fields[i].Name == name {
			return &s.Fields[i]
		}
	}
	return nil
}

// zero value term of a sort
func (u *Universe) zero(s *Sort) string {
	switch s.Kind {
	case KInt, KRef, KMap, KFunc:
		return "0"
	case KBool:
		return "false"
	case KStr:
		return u.lit("")
	case KAny:
		return "anynil"
	case KStruct:
		if len(s.Fields) == 0 {
			return "mk_" + s.Name
		}
		var fs []string
		for _, f := range s.Fields {
			fs = append(fs, u.zero(f.Sort))
		}
		return "(mk_" + s.Name + " " + strings.Join(fs, " ") + ")"
	case KSlice:
		return fmt.Sprintf("(mk_%s %s 0)", s.Name, u.zeroArray(s.Elem))
	case KArr:
		return u.zeroArray(s.Elem)
	case KSet:
		return fmt.Sprintf("((as const %s) false)", s.Name)
	case KOpaque:
		return "zero_" + s.Name
	}
	return "0"
}

// prelude renders all declarations + axioms (to be placed before the facts of a query).
func (u *Universe) prelude() string {
	var b strings.Builder
	nb := 8 // builtin declarations (sorts, string functions)
	if nb > len(u.decls) {
		nb = len(u.decls)
	}
	for _, d := range u.decls[:nb] {
		b.WriteString(d)
		b.WriteByte('\n')
	}
	// string literal constants are declared before anything that may mention them
	var names []string
	for _, l := range u.litOrder {
		n := u.lits[l]
		names = append(names, n)
		fmt.Fprintf(&b, "(declare-const %s Str)\n", n)
	}
	for _, d := range u.decls[nb:] {
		b.WriteString(d)
		b.WriteByte('\n')
	}
	for _, l := range u.litOrder {
		n := u.lits[l]
		fmt.Fprintf(&b, "(assert (= (slen %s) %d))\n", n, len(l))
		if len(l) <= 24 {
			for i := 0; i < len(l); i++ {
				fmt.Fprintf(&b, "(assert (= (sat %s %d) %d))\n", n, i, l[i])
			}
		}
	}
	if len(names) > 1 {
		sort.Strings(names)
		fmt.Fprintf(&b, "(assert (distinct %s))\n", strings.Join(names, " "))
	}
	for _, im := range u.imports {
		b.WriteString(im)
		b.WriteByte('\n')
	}
	return b.String()
}

// axiomPart renders the axioms (after all constants have been declared).
func (u *Universe) axiomPart() string {
	var b strings.Builder
	if u.needStrExt {
		b.WriteString("(assert (forall ((a Str) (b Str)) (! (=> (and (= (slen a) (slen b)) (forall ((i Int)) (=> (and (<= 0 i) (< i (slen a))) (= (sat a i) (sat b i))))) (= a b)) :pattern ((slen a) (slen b)))))\n")
	}
	for _, a := range u.axioms {
		fmt.Fprintf(&b, "(assert %s)\n", a)
	}
	return b.String()
}


// zeroArray: an (Array Int X) whose every element is the zero value of X. `as const` needs a value as
// default (cvc5 rejects declared constants), so for uninterpreted element sorts a declared array with an axiom is used.
func (u *Universe) zeroArray(el *Sort) string {
	switch el.Kind {
	case KInt, KRef, KMap, KFunc, KBool:
		return fmt.Sprintf("((as const (Array Int %s)) %s)", el.Name, u.zero(el))
	}
	n := "zarr_" + smtName(el.Name)
	if !u.declared[n] {
		u.declared[n] = true
		u.decls = append(u.decls, fmt.Sprintf("(declare-const %s (Array Int %s))", n, el.Name))
		u.axioms = append(u.axioms, fmt.Sprintf("(forall ((i Int)) (! (= (select %s i) %s) :pattern ((select %s i))))", n, u.zero(el), n))
	}
	return n
}
