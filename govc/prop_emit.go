package main

// Emitted-package instances (used by C08 and C19).
//
// The generator's output is Go source produced by text templates; the VC generator cannot read a template, but it can
// read what the template emits. For a corpus of specifications the REAL front end and generator of the working tree
// are run (driver /verif/harness/emit_driver_test.go.txt, injected with go test -overlay); each emitted package is
// loaded and type-checked on its own (standard library only) and its functions advanceDFA / evalDFA / NextToken are
// put under contracts GENERATED from the token automaton the generator computed for the same Spec value. Per
// instance the proof is complete (every state x every character; every input text); over specifications it is a
// BOUNDED stand-in (the corpus), labelled so and never counted among the discharged obligations of the property.

import (
	"encoding/json"
	"fmt"
	"os"
	"os/exec"
	"path/filepath"
	"regexp"
	"sort"
	"strconv"
	"strings"
	"time"
)

type emitTrans struct{ From, Sym, To int }
type emitFinal struct {
	Terminal string
	States   []int
}
type emitDump struct {
	File     string
	Package  string
	Error    string
	GenError string
	Start    int
	States   []int
	Trans    []emitTrans
	Finals   []emitFinal
	AllFinal []int
	Unowned  []string

	base string // file name without extension
	dir  string // emitted package directory ("" if not emitted)
}

func (d *emitDump) maxState() int {
	m := 0
	for _, s := range d.States {
		if s > m {
			m = s
		}
	}
	for _, t := range d.Trans {
		if t.From > m {
			m = t.From
		}
		if t.To > m {
			m = t.To
		}
	}
	return m
}

func (d *emitDump) startAccepting() bool {
	for _, s := range d.AllFinal {
		if s == d.Start {
			return true
		}
	}
	return false
}

func emitCorpusFiles(c *CheckCtx) []string {
	files, _ := filepath.Glob("/verif/harness/corpus/*.grammar")
	sort.Strings(files)
	files = append(files, filepath.Join(c.Repo, "internal/ebnf/fixture/test.success.grammar"))
	if c.Tier == "thorough" {
		files = append(files, filepath.Join(c.Repo, "internal/ebnf/fixture/pascal.grammar"))
	}
	return files
}

// emitInstances runs the real generator on the corpus (once per check run).
func emitInstances(c *CheckCtx) ([]*emitDump, error) {
	if v, ok := c.Data["emit"]; ok {
		return v.([]*emitDump), nil
	}
	dir := filepath.Join(scratch(), "emit")
	out := filepath.Join(dir, "out")
	os.MkdirAll(out, 0o755)
	src, err := os.ReadFile("/verif/harness/emit_driver_test.go.txt")
	if err != nil {
		return nil, err
	}
	tf := filepath.Join(dir, "zz_emit_test.go")
	os.WriteFile(tf, src, 0o644)
	ov := filepath.Join(dir, "ov.json")
	os.WriteFile(ov, []byte(fmt.Sprintf(`{"Replace":{%q:%q}}`, filepath.Join(c.Repo, "internal/generate/golang/zz_emit_test.go"), tf)), 0o644)
	files := emitCorpusFiles(c)
	cmd := exec.Command("go", "test", "-overlay", ov, "-vet=off", "-count=1", "-timeout", "600s", "-run", "TestZZEmitCorpus", "./internal/generate/golang")
	cmd.Dir = c.Repo
	cmd.Env = append(os.Environ(), "GOFLAGS=-mod=mod", "GOPROXY=off", "GOVC_EMIT_OUT="+out, "GOVC_EMIT_SPECS="+strings.Join(files, ":"))
	if b, err := cmd.CombinedOutput(); err != nil {
		return nil, fmt.Errorf("emit driver failed: %v\n%s", err, truncate(string(b), 3000))
	}
	var dumps []*emitDump
	for _, f := range files {
		base := strings.TrimSuffix(filepath.Base(f), filepath.Ext(f))
		data, err := os.ReadFile(filepath.Join(out, "dump_"+base+".json"))
		if err != nil {
			return nil, fmt.Errorf("no dump for %s: %v", f, err)
		}
		d := &emitDump{}
		if err := json.Unmarshal(data, d); err != nil {
			return nil, err
		}
		d.base = base
		if d.Package != "" {
			p := filepath.Join(out, d.Package)
			if _, err := os.Stat(filepath.Join(p, "lexer.go")); err == nil {
				d.dir = p
				os.WriteFile(filepath.Join(p, "go.mod"), []byte("module "+d.Package+"\n\ngo 1.24\n"), 0o644)
			}
		}
		dumps = append(dumps, d)
	}
	if c.Data == nil {
		c.Data = map[string]any{}
	}
	c.Data["emit"] = dumps
	return dumps, nil
}

func smtInt(n int) string {
	if n < 0 {
		return fmt.Sprintf("(- %d)", -n)
	}
	return strconv.Itoa(n)
}

// writeInstanceContracts writes tables.smt2 and contracts.gvc for one emitted package and returns their directory.
func writeInstanceContracts(d *emitDump) (string, error) {
	cdir := filepath.Join(filepath.Dir(d.dir), "contracts_"+d.base)
	os.MkdirAll(cdir, 0o755)
	// delta
	rows := map[int][]emitTrans{}
	for _, t := range d.Trans {
		rows[t.From] = append(rows[t.From], t)
	}
	var froms []int
	for s := range rows {
		froms = append(froms, s)
	}
	sort.Ints(froms)
	var b strings.Builder
	b.WriteString("; token automaton computed by the generator (Spec.DFA) for " + d.File + "\n")
	b.WriteString("(define-fun delta ((q Int) (r Int)) Int\n")
	closing := 0
	for _, s := range froms {
		ts := rows[s]
		sort.Slice(ts, func(i, j int) bool { return ts[i].Sym < ts[j].Sym })
		fmt.Fprintf(&b, " (ite (= q %d) ", s)
		inner := 0
		for i := 0; i < len(ts); {
			j := i
			for j+1 < len(ts) && ts[j+1].To == ts[i].To && ts[j+1].Sym == ts[j].Sym+1 {
				j++
			}
			fmt.Fprintf(&b, "(ite (and (<= %d r) (<= r %d)) %s ", ts[i].Sym, ts[j].Sym, smtInt(ts[i].To))
			inner++
			i = j + 1
		}
		b.WriteString("(- 1)" + strings.Repeat(")", inner) + "\n")
		closing++
	}
	b.WriteString(" (- 1)" + strings.Repeat(")", closing) + ")\n")
	// finalOf: index of the owning definition, -1 if none
	owner := map[int]int{}
	for k, f := range d.Finals {
		for _, s := range f.States {
			if _, dup := owner[s]; dup {
				return "", fmt.Errorf("state %d is owned by two terminals in the generator's own state map", s)
			}
			owner[s] = k
		}
	}
	var owned []int
	for s := range owner {
		owned = append(owned, s)
	}
	sort.Ints(owned)
	b.WriteString("(define-fun finalOf ((q Int)) Int\n")
	for _, s := range owned {
		fmt.Fprintf(&b, " (ite (= q %d) %d", s, owner[s])
	}
	b.WriteString(" (- 1)" + strings.Repeat(")", len(owned)) + ")\n")
	os.WriteFile(filepath.Join(cdir, "tables.smt2"), []byte(b.String()), 0o644)

	n := d.maxState()
	var g strings.Builder
	w := func(f string, a ...any) { fmt.Fprintf(&g, f+"\n", a...) }
	w("# generated by govc for the emitted package %s (specification %s) -- instance contracts", d.Package, d.File)
	w("package %s", d.Package)
	w("import \"fmt\"")
	w("import \"errors\"")
	w("import \"io\"")
	w("spec-import %q", filepath.Join(cdir, "tables.smt2"))
	w("extern func delta(q int, r int) int")
	w("extern func finalOf(q int) int")
	name := "def func termName(k int) string = "
	skips := []string{}
	for k, f := range d.Finals {
		name += fmt.Sprintf("k == %d ? %s : ", k, strconv.Quote(f.Terminal))
		if f.Terminal == "WS" || f.Terminal == "EOL" || f.Terminal == "COMMENT" {
			skips = append(skips, fmt.Sprintf("k == %d", k))
		}
	}
	w("%s\"ERR\"", name)
	if len(skips) == 0 {
		w("def func skips(k int) bool = false")
	} else {
		w("def func skips(k int) bool = %s", strings.Join(skips, " || "))
	}
	w(`
# ---- the abstract cursor assumed for the emitted reader (compared with the real emitted reader by the bounded conformance run) ----
ghost field input.src []rune
ghost field input.lb int
ghost field input.fw int
ghost field input.endErr error
ghost func posAt(b *input, i int) Position
ghost func lexText(s []rune, a int, b int) string
spec func cursorOK(b *input) bool = b != nil && 0 <= b.lb && b.lb <= b.fw && b.fw <= len(b.src) && b.endErr != nil

func (b *input) Next() (rune, error)
  assumed
  requires cursorOK(b)
  modifies b.fw
  ensures old(b.fw) < len(b.src) ==> result1 == nil && result0 == b.src[old(b.fw)] && b.fw == old(b.fw) + 1
  ensures old(b.fw) >= len(b.src) ==> result1 == b.endErr && result0 == 0 && b.fw == old(b.fw)
func (b *input) Retract()
  assumed
  requires cursorOK(b) && b.fw > b.lb
  modifies b.fw
  ensures b.fw == old(b.fw) - 1
func (b *input) Lexeme() (string, Position)
  assumed
  requires cursorOK(b)
  modifies b.lb
  ensures b.lb == old(b.fw)
  ensures result0 == lexText(b.src, old(b.lb), old(b.fw)) && result1 == posAt(b, old(b.lb))
func (b *input) Skip() Position
  assumed
  requires cursorOK(b)
  modifies b.lb
  ensures b.lb == old(b.fw)
  ensures result == posAt(b, old(b.lb))
func (p Position) String() string
  assumed
  pure

# ---- C08: the emitted transition function and accepting table are the generator's automaton ----
func advanceDFA(state int, r rune) int
  pure
  split state 0 %d
  ensures @table result == delta(state, r)
  ensures @outside !(0 <= state && state <= %d) ==> result == -1

ghost func run(s []rune, lb int, k int) int
axiom forall s []rune, lb int :: {run(s, lb, lb)} run(s, lb, lb) == 0
axiom forall s []rune, lb int, k int :: {run(s, lb, k)} k > lb ==> run(s, lb, k) == advanceDFA(run(s, lb, k-1), s[k-1])

spec func lexErrText(b *input, lo int, hi int) string =
  fmt.Sprintf("lexical error at %%s:%%s", anys2(box(posAt(b, lo)), box(lexText(b.src, lo, hi))))

func (l *Lexer) evalDFA(state int) Token
  requires l != nil && cursorOK(l.in)
  split state 0 %d
  modifies l.in.lb
  ensures @cursor l.in.lb == old(l.in.fw)
  ensures @terminal result.Terminal == termName(finalOf(state))
  ensures @pos result.Pos == posAt(l.in, old(l.in.lb))
  ensures @lexeme finalOf(state) >= 0 ==> result.Lexeme == lexText(l.in.src, old(l.in.lb), old(l.in.fw))
  ensures @errmsg finalOf(state) < 0 ==> result.Lexeme == lexErrText(l.in, old(l.in.lb), old(l.in.fw))

# ---- C19: NextToken is the longest-run token function of the input text ----
# longest(s, p): end of the longest run the automaton can follow from p; tokStart(s, p): start of the first token at
# or after p that is not skipped (terminals WS, EOL, COMMENT; blanks that no token matches are discarded, as documented)
ghost func longest(s []rune, p int) int
ghost func tokStart(s []rune, p int) int
spec func isLongest(s []rune, p int, e int) bool =
  p <= e && e <= len(s) && (forall k int :: {run(s, p, k)} p <= k && k <= e ==> run(s, p, k) != -1)
  && (e == len(s) || advanceDFA(run(s, p, e), s[e]) == -1)
axiom forall s []rune, p int, e int :: {run(s, p, e)} isLongest(s, p, e) ==> longest(s, p) == e
spec func kindAt(s []rune, p int) int = finalOf(run(s, p, longest(s, p)))
spec func isBlank(r rune) bool = r == 32 || r == 9 || r == 10 || r == 13
spec func strayBlank(s []rune, p int) bool = isBlank(s[p]) && advanceDFA(0, s[p]) == -1
axiom forall s []rune, p int :: {tokStart(s, p)} p >= len(s) ==> tokStart(s, p) == p
axiom forall s []rune, p int :: {tokStart(s, p)} 0 <= p && p < len(s) && strayBlank(s, p) ==> tokStart(s, p) == tokStart(s, p + 1)
axiom forall s []rune, p int :: {tokStart(s, p)} 0 <= p && p < len(s) && !strayBlank(s, p) && !skips(kindAt(s, p)) ==> tokStart(s, p) == p
axiom forall s []rune, p int :: {tokStart(s, p)} 0 <= p && p < len(s) && !strayBlank(s, p) && skips(kindAt(s, p)) && longest(s, p) > p
  ==> tokStart(s, p) == tokStart(s, longest(s, p))

func (l *Lexer) NextToken() (Token, error)
  requires l != nil && cursorOK(l.in) && l.in.lb == l.in.fw
  requires errors.Is(l.in.endErr, io.EOF)
  modifies l.in.lb, l.in.fw
  decreases len(l.in.src) - l.in.lb
  loop[0] invariant cursorOK(l.in) && l.in.lb == old(l.in.lb)
  loop[0] invariant size == l.in.fw - l.in.lb
  loop[0] invariant curr == run(l.in.src, l.in.lb, l.in.fw) && curr != -1
  loop[0] invariant forall k int :: {run(l.in.src, l.in.lb, k)} l.in.lb <= k && k <= l.in.fw ==> run(l.in.src, l.in.lb, k) != -1
  loop[0] decreases len(l.in.src) - l.in.fw
  ensures @cursor cursorOK(l.in) && (result1 == nil ==> l.in.lb == l.in.fw)
  ensures @end-of-input tokStart(l.in.src, old(l.in.lb)) >= len(l.in.src) ==> result1 == l.in.endErr
  ensures @lexical-error tokStart(l.in.src, old(l.in.lb)) < len(l.in.src) && kindAt(l.in.src, tokStart(l.in.src, old(l.in.lb))) < 0
    ==> result1 != nil && errText(result1) == lexErrText(l.in, tokStart(l.in.src, old(l.in.lb)), longest(l.in.src, tokStart(l.in.src, old(l.in.lb))))
  ensures @token tokStart(l.in.src, old(l.in.lb)) < len(l.in.src) && kindAt(l.in.src, tokStart(l.in.src, old(l.in.lb))) >= 0
    ==> result1 == nil && l.in.lb == longest(l.in.src, tokStart(l.in.src, old(l.in.lb)))
        && result0.Terminal == termName(kindAt(l.in.src, tokStart(l.in.src, old(l.in.lb))))
        && result0.Pos == posAt(l.in, tokStart(l.in.src, old(l.in.lb)))
        && result0.Lexeme == lexText(l.in.src, tokStart(l.in.src, old(l.in.lb)), longest(l.in.src, tokStart(l.in.src, old(l.in.lb))))
`, n, n, n)
	os.WriteFile(filepath.Join(cdir, "contracts.gvc"), []byte(g.String()), 0o644)
	return cdir, nil
}

type emitSel struct {
	unit  *regexp.Regexp
	names *regexp.Regexp // nil: all
}

// checkEmittedInstances type-checks every emitted package and discharges the selected instance obligations.
func checkEmittedInstances(c *CheckCtx, what string, typecheck bool, sels []emitSel) error {
	dumps, err := emitInstances(c)
	if err != nil {
		return err
	}
	opts := solveOpts{TimeoutS: c.Timeout, Seed: c.Seed}
	nInst := 0
	for _, d := range dumps {
		if d.Error != "" {
			c.Notes = append(c.Notes, fmt.Sprintf("corpus %s: not an accepted specification (%s) - no instance", d.base, truncate(strings.ReplaceAll(d.Error, "\n", " "), 160)))
			continue
		}
		if d.dir == "" {
			c.ExtraFindings = append(c.ExtraFindings, Finding{Obligation: fmt.Sprintf("emitted[%s]#emitted", d.base),
				What: "the specification is accepted but no lexer.go was emitted: " + truncate(d.GenError, 300)})
			continue
		}
		nInst++
		t0 := time.Now()
		br := BoundedRun{Name: fmt.Sprintf("%s: emitted package %q of %s (%d states, %d transitions)", what, d.Package, d.File, len(d.States), len(d.Trans)),
			Bound: "one specification of the corpus; within it: every state x every character (advanceDFA/evalDFA), every input text (NextToken)"}
		cdir, err := writeInstanceContracts(d)
		if err != nil {
			c.ExtraFindings = append(c.ExtraFindings, Finding{Obligation: fmt.Sprintf("emitted[%s]#statemap", d.base), What: err.Error()})
			continue
		}
		eng, err := loadEngine(d.dir, []string{"."}, []string{"/verif/contracts/dep", cdir})
		if err != nil {
			return fmt.Errorf("load emitted %s: %v", d.Package, err)
		}
		if len(eng.loadErrs) > 0 {
			if typecheck {
				c.ExtraFindings = append(c.ExtraFindings, Finding{Obligation: fmt.Sprintf("emitted[%s]#typecheck", d.base),
					What: fmt.Sprintf("the emitted package %q does not type-check on its own (go/types, standard library only): %s", d.Package, truncate(strings.Join(eng.loadErrs, "; "), 1200)),
					HasInput: true, Replay: map[string]any{"failing_input": d.File, "kind": "emit the package for this specification and type-check it", "confirmed_on_real_code": true}})
			} else {
				c.Notes = append(c.Notes, fmt.Sprintf("emitted[%s]: package does not type-check (reported under C08); instance obligations skipped", d.base))
			}
			br.Failures = append(br.Failures, "typecheck")
			br.Secs = round3(time.Since(t0).Seconds())
			c.Bounded = append(c.Bounded, br)
			continue
		}
		var obls []*Obligation
		for _, key := range eng.unitOrder {
			var use []emitSel
			for _, s := range sels {
				if s.unit.MatchString(key) {
					use = append(use, s)
				}
			}
			if len(use) == 0 {
				continue
			}
			fc := eng.contracts[key]
			if fc == nil || fc.Assumed {
				continue
			}
			if strings.HasSuffix(key, ".Lexer.NextToken") && d.startAccepting() {
				c.Notes = append(c.Notes, fmt.Sprintf("emitted[%s]: a token matches the empty string (the start state is accepting) - outside the precondition of the NextToken contract, NextToken not checked for this instance", d.base))
				continue
			}
			res, _ := eng.generate(eng.units[key])
			for _, m := range res.SpecErrors {
				c.ExtraFindings = append(c.ExtraFindings, Finding{Obligation: fmt.Sprintf("emitted[%s]:%s#contract", d.base, key), What: "instance contract does not bind to the emitted code: " + m})
			}
			for _, m := range res.Unsupported {
				c.ExtraFindings = append(c.ExtraFindings, Finding{Obligation: fmt.Sprintf("emitted[%s]:%s#subset", d.base, key), What: "emitted construct outside the verified subset: " + m})
			}
			for _, o := range res.Obligations {
				for _, s := range use {
					if s.names == nil || s.names.MatchString(o.Name) {
						obls = append(obls, o)
						break
					}
				}
			}
		}
		known := readKnownFindings("/verif/known_findings.txt")
		for _, o := range obls {
			full := fmt.Sprintf("emitted[%s]:%s", d.base, o.Name)
			for _, k := range known {
				if k.Kind == "known" && k.Property == c.Spec.ID && k.Obligation == full {
					o.NoRetry = true
				}
			}
		}
		dischargeAll(obls, opts, 16, filepath.Join("/verif/replays", c.Spec.ID, "queries_"+d.base))
		for _, o := range obls {
			if o.MustFail {
				if o.Result.Verdict == Proved {
					c.ExtraFindings = append(c.ExtraFindings, Finding{Obligation: fmt.Sprintf("emitted[%s]:%s", d.base, o.Name), What: "VACUOUS instance contract: " + o.Desc})
				}
				continue
			}
			br.Cases++
			if o.Result.Verdict == Proved {
				br.Distinct++
				continue
			}
			full := fmt.Sprintf("emitted[%s]:%s", d.base, o.Name)
			br.Failures = append(br.Failures, full)
			c.ExtraFindings = append(c.ExtraFindings, Finding{Obligation: full,
				What: fmt.Sprintf("instance obligation not discharged (%s) for the package emitted from %s: %s at %s:%d", o.Result.Verdict, d.File, o.Desc, filepath.Base(o.Pos.Filename), o.Pos.Line),
				Replay: map[string]any{"specification": d.File, "unit": o.Unit, "clause": o.Desc, "verdict": o.Result.Verdict.String(), "solver_output": truncate(o.Result.Output+o.Result.Model, 3000)}})
		}
		br.Secs = round3(time.Since(t0).Seconds())
		c.Bounded = append(c.Bounded, br)
	}
	if nInst == 0 {
		return fmt.Errorf("no specification of the corpus was accepted and emitted: the instance layer checked nothing")
	}
	return nil
}

// conformEmittedReader runs the cursor-conformance harness inside an emitted package (its reader is template text).
func conformEmittedReader(c *CheckCtx, only map[string]bool) error {
	dumps, err := emitInstances(c)
	if err != nil {
		return err
	}
	var d *emitDump
	for _, x := range dumps {
		if x.dir != "" {
			d = x
			break
		}
	}
	if d == nil {
		return fmt.Errorf("no emitted package to run the reader conformance in")
	}
	t0 := time.Now()
	src, err := os.ReadFile("/verif/harness/input_conform_test.go.txt")
	if err != nil {
		return err
	}
	text := string(src)
	text = strings.Replace(text, "package lexer\n", "package "+d.Package+"\n", 1)
	text = strings.Replace(text, "\t\"github.com/moorara/algo/lexer/input\"\n", "", 1)
	text = strings.Replace(text, "input.New(", "newInput(", 1)
	os.WriteFile(filepath.Join(d.dir, "zz_conform_test.go"), []byte(text), 0o644)
	defer os.Remove(filepath.Join(d.dir, "zz_conform_test.go"))
	cmd := exec.Command("go", "test", "-vet=off", "-count=1", "-timeout", "300s", "-v", "-run", "TestZZInputConformance", ".")
	cmd.Dir = d.dir
	cmd.Env = append(os.Environ(), "GOFLAGS=-mod=mod", "GOPROXY=off")
	bound := "N=2, every source of <= 4 characters over {a, LF, e-acute}, every sequence of <= 5 operations Next/Retract/Lexeme/Skip"
	if c.Tier == "thorough" {
		cmd.Env = append(cmd.Env, "GOVC_CONFORM_BOUND=thorough")
		bound = "N in {1,2,3,4}, sources up to 9 characters over small alphabets incl. a 2-byte rune, operation sequences up to 7"
	}
	out, runErr := cmd.CombinedOutput()
	re := regexp.MustCompile(`^CONFORM-FAIL class=(\S+) n=(\d+) src=("(?:[^"\\]|\\.)*") ops=(\S+) detail=(.*)$`)
	sum := regexp.MustCompile(`^CONFORM-SUMMARY cases=(\d+) passing=(\d+) classes=(\d+)`)
	br := BoundedRun{Name: "conformance of the EMITTED reader (templates/input.go.tmpl as emitted) with the cursor contract assumed for it", Bound: bound}
	saw := false
	for _, line := range strings.Split(string(out), "\n") {
		if m := sum.FindStringSubmatch(line); m != nil {
			br.Cases, _ = strconv.Atoi(m[1])
			br.Distinct, _ = strconv.Atoi(m[2])
			saw = true
			continue
		}
		m := re.FindStringSubmatch(line)
		if m == nil {
			continue
		}
		br.Failures = append(br.Failures, line)
		if only != nil && !only[m[1]] {
			continue
		}
		what := conformWhat[m[1]]
		if what == "" {
			what = "the emitted reader deviates from the cursor contract in a way that is not one of the recorded classes"
		}
		srcText, _ := strconv.Unquote(m[3])
		c.ExtraFindings = append(c.ExtraFindings, Finding{
			Obligation: fmt.Sprintf("emitted.input#conform[%s]", m[1]),
			What:       fmt.Sprintf("bounded conformance of the emitted reader (N=%s, source %s, operations %s): %s; %s", m[2], m[3], m[4], m[5], what),
			HasInput:   true,
			Replay: map[string]any{"kind": "bounded conformance run against the emitted code", "buffer_half": m[2], "failing_input": srcText, "operations": m[4],
				"observed_vs_required": m[5], "confirmed_on_real_code": true}})
	}
	br.Secs = round3(time.Since(t0).Seconds())
	c.Bounded = append(c.Bounded, br)
	if !saw {
		return fmt.Errorf("conformance harness for the emitted reader did not complete: %v\n%s", runErr, truncate(string(out), 2000))
	}
	return conformEmittedStack(c, d)
}

// conformEmittedStack: the emitted stack (used by the reader for rune sizes and line columns) against a slice.
func conformEmittedStack(c *CheckCtx, d *emitDump) error {
	t0 := time.Now()
	src, err := os.ReadFile("/verif/harness/stack_conform_test.go.txt")
	if err != nil {
		return err
	}
	tf := filepath.Join(d.dir, "zz_stack_test.go")
	os.WriteFile(tf, []byte(strings.Replace(string(src), "package PKG\n", "package "+d.Package+"\n", 1)), 0o644)
	defer os.Remove(tf)
	cmd := exec.Command("go", "test", "-vet=off", "-count=1", "-timeout", "300s", "-v", "-run", "TestZZStackConformance", ".")
	cmd.Dir = d.dir
	cmd.Env = append(os.Environ(), "GOFLAGS=-mod=mod", "GOPROXY=off")
	bound := "block sizes 1..3, every sequence of <= 7 Push/Pop operations, all observers compared after every operation"
	if c.Tier == "thorough" {
		cmd.Env = append(cmd.Env, "GOVC_CONFORM_BOUND=thorough")
		bound = "block sizes 1..3, every sequence of <= 10 Push/Pop operations, all observers compared after every operation"
	}
	out, runErr := cmd.CombinedOutput()
	br := BoundedRun{Name: "conformance of the EMITTED stack (templates/stack.go.tmpl as emitted) with a slice", Bound: bound}
	sum := regexp.MustCompile(`STACK-SUMMARY cases=(\d+) failing=(\d+)`)
	m := sum.FindStringSubmatch(string(out))
	if m == nil {
		return fmt.Errorf("stack conformance harness did not complete: %v\n%s", runErr, truncate(string(out), 2000))
	}
	br.Cases, _ = strconv.Atoi(m[1])
	nf, _ := strconv.Atoi(m[2])
	br.Distinct = br.Cases - nf
	for _, line := range strings.Split(string(out), "\n") {
		if strings.HasPrefix(line, "STACK-FAIL ") {
			br.Failures = append(br.Failures, line)
			c.ExtraFindings = append(c.ExtraFindings, Finding{Obligation: "emitted.stack#conform", What: "the emitted stack deviates from a slice: " + line, HasInput: true,
				Replay: map[string]any{"kind": "bounded conformance run against the emitted code", "failing_input": line, "confirmed_on_real_code": true}})
		}
	}
	br.Secs = round3(time.Since(t0).Seconds())
	c.Bounded = append(c.Bounded, br)
	return nil
}
