#!/bin/bash
# usage: tools/import_seeds2.sh <prop> <pkgdir1> <pkgdir2>
# third seeding round: verifies /tmp/seed3-<prop>/<n> in a scratch worktree and, if confirmed, stores it as
# /verif/seeded/<prop>-<5+n>
prop=$1; shift
n=0
for pkg in "$@"; do
  n=$((n+1)); k=$((n+5))
  src=/tmp/seed3-$prop/$n
  [ -f $src/patch.diff ] || { echo "$prop-$k: missing"; continue; }
  out=$(/verif/tools/verify_seed.sh $src $pkg 2>&1 | tail -3)
  if echo "$out" | grep -q '^CONFIRMED'; then
    mkdir -p /verif/seeded/$prop-$k
    cp $src/patch.diff $src/demo_test.go $src/README.txt /verif/seeded/$prop-$k/ 2>/dev/null
    python3 - "$prop" "$pkg" "$src/README.txt" "/verif/seeded/$prop-$k/meta.json" <<'PY'
import json,sys
prop,pkg,readme,out=sys.argv[1:5]
what=open(readme).readline().strip()[:200]
json.dump({"property":prop,"change":what,"demo_package_dir":pkg,"round":3,
 "source":"independent sub-agent given only the property text and a scratch worktree (third round, after the checks of this property had been built)",
 "confirmed":"tools/verify_seed.sh: full suite passes with the patch, demo fails with it, demo passes without it (scratch worktree, removed afterwards)"},open(out,"w"),indent=1)
PY
    echo "$prop-$k: CONFIRMED"
  else
    echo "$prop-$k: NOT CONFIRMED: $out"
  fi
done
