#!/bin/sh
# Applies every /verif/seeded/<id>-<n>/patch.diff to /repo, runs the property's quick check, reverts.
cd /verif || exit 2
./setup.sh >/dev/null || exit 2
# evidence files are rewritten by every check run: keep the ones of the unchanged tree
rm -rf /tmp/evidence.keep.$$; cp -r /verif/evidence /tmp/evidence.keep.$$; trap 'rm -rf /verif/evidence; mv /tmp/evidence.keep.'$$' /verif/evidence; rm -rf /verif/replays/*' EXIT
if [ -n "$(git -C /repo status --porcelain)" ]; then echo "refusing to run: /repo has uncommitted changes (this script reverts the working tree)"; exit 2; fi
for d in seeded/${1:-*}/; do
  name=$(basename "$d"); prop=${name%%-*}
  [ -f "$d/patch.diff" ] || continue
  if ! git -C /repo apply "/verif/$d/patch.diff" 2>/dev/null; then echo "SKIP $name (does not apply)"; continue; fi
  out=$(/verif/bin/govc check "$prop" quick 2>&1); rc=$?
  git -C /repo checkout -q -- .
  n=$(echo "$out" | grep -c '^VIOLATION')
  if [ $rc -eq 1 ] && [ "$n" -gt 0 ]; then
    echo "CAUGHT $name ($n): $(echo "$out" | grep '^VIOLATION' | head -3 | sed 's/.*obligation=//' | sed 's/github.com.gardenbed.emerge.internal.//' | tr '\n' ' ')"
  else
    echo "MISSED $name (exit $rc)"
  fi
done
