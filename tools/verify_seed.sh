#!/bin/bash
# usage: tools/verify_seed.sh <seed dir with patch.diff + demo_test.go> <target package dir relative to repo>
# Confirms in a scratch worktree: suite passes with the patch, demo fails with it, demo passes without it.
set -u
seed=$1; pkg=$2
export GOFLAGS=-mod=mod GOPROXY=off
wt=$(mktemp -d /tmp/seedwt-XXXX); rmdir $wt
git -C /repo worktree add -q --detach $wt HEAD || exit 2
trap 'git -C /repo worktree remove --force '$wt' >/dev/null 2>&1' EXIT
cd $wt
git apply $seed/patch.diff || { echo "PATCH-DOES-NOT-APPLY"; exit 1; }
# TestSpec_DFA/Success depends on map iteration order and fails now and then on the unchanged tree (not in the
# pinned stable set): its failures are not counted.
suite=$(go test -vet=off -count=1 ./... 2>&1 | grep '^--- FAIL\|^    --- FAIL' | grep -vc 'TestSpec_DFA')
cp $seed/demo_test.go $pkg/zz_demo_seed_test.go
go test -vet=off -count=1 -run 'Demo' ./$pkg >/tmp/seed_with.log 2>&1; with=$?
git checkout -q -- . ; 
go test -vet=off -count=1 -run 'Demo' ./$pkg >/tmp/seed_without.log 2>&1; without=$?
echo "suite_failures_with_patch=$suite demo_with_patch_exit=$with demo_without_patch_exit=$without"
if [ "$suite" = 0 ] && [ $with -ne 0 ] && [ $without -eq 0 ]; then echo CONFIRMED; else echo NOT-CONFIRMED; tail -5 /tmp/seed_with.log; tail -5 /tmp/seed_without.log; fi
