#!/bin/sh
# usage: tools/mk_agent_worktree.sh <dir>
# Scratch worktree of /repo's HEAD for an independent sub-agent: the contract comment files are removed in a
# detached scratch commit (never on main), so the agent sees nothing of the verification machinery.
set -e
dir=$1
git -C /repo worktree add -q --detach "$dir" HEAD
cd "$dir"
git rm -q $(git ls-files | grep 'zz_contracts_verif.go$')
git -c user.name=scratch -c user.email=scratch@example.invalid commit -q -m "scratch: drop contract comments"
echo "$dir at $(git rev-parse --short HEAD)"
