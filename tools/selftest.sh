#!/bin/sh
# Engine regression: every mutant under /verif/selftest/mutants (and /verif/seeded/*/patch.diff) must make
# the check of the property it is named after report a VIOLATION. Applies each diff to /repo and reverts it.
# usage: tools/selftest.sh [pattern]
cd /verif || exit 2
./setup.sh >/dev/null || exit 2
# evidence files are rewritten by every check run: keep the ones of the unchanged tree
rm -rf /tmp/evidence.keep.$$; cp -r /verif/evidence /tmp/evidence.keep.$$; trap 'rm -rf /verif/evidence; mv /tmp/evidence.keep.'$$' /verif/evidence; rm -rf /verif/replays/*' EXIT
if [ -n "$(git -C /repo status --porcelain)" ]; then echo "refusing to run: /repo has uncommitted changes (this script reverts the working tree)"; exit 2; fi
fail=0
for d in selftest/mutants/${1:-*}.diff; do
  name=$(basename "$d" .diff); prop=${name%%-*}
  if ! git -C /repo apply "/verif/$d" 2>/dev/null; then echo "SKIP $name (does not apply)"; continue; fi
  out=$(/verif/bin/govc check "$prop" quick 2>&1); rc=$?
  git -C /repo checkout -q -- .
  n=$(echo "$out" | grep -c '^VIOLATION')
  if [ $rc -eq 1 ] && [ "$n" -gt 0 ]; then
    echo "CAUGHT $name ($n violations): $(echo "$out" | grep '^VIOLATION' | head -2 | sed 's/.*obligation=//' | tr '\n' ' ')"
  else
    echo "MISSED $name (exit $rc)"; fail=1
  fi
done
exit $fail
