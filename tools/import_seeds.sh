#!/bin/bash
# usage: tools/import_seeds.sh <prop> <pkgdir1> <pkgdir2> <pkgdir3>
# verifies /tmp/seed-<prop>/<n> in a scratch worktree and, if confirmed, stores it as /verif/seeded/<prop>-<n>
prop=$1; shift
n=0
for pkg in "$@"; do
  n=$((n+1))
  src=/tmp/seed-$prop/$n
  [ -f $src/patch.diff ] || { echo "$prop-$n: missing"; continue; }
  out=$(/verif/tools/verify_seed.sh $src $pkg 2>&1 | tail -3)
  if echo "$out" | grep -q '^CONFIRMED'; then
    mkdir -p /verif/seeded/$prop-$n
    cp $src/patch.diff $src/demo_test.go $src/README.txt /verif/seeded/$prop-$n/ 2>/dev/null
    what=$(head -1 $src/README.txt | tr -d '"' | cut -c1-200)
    printf '{\n "property": "%s",\n "change": "%s",\n "demo_package_dir": "%s",\n "source": "independent sub-agent given only the property text and a scratch worktree",\n "confirmed": "tools/verify_seed.sh: full suite passes with the patch (the order-dependent TestSpec_DFA/Success, flaky on the unchanged tree, not counted), demo fails with it, demo passes without it (scratch worktree, removed afterwards)"\n}\n' "$prop" "$what" "$pkg" > /verif/seeded/$prop-$n/meta.json
    echo "$prop-$n: CONFIRMED"
  else
    echo "$prop-$n: NOT CONFIRMED: $out"
  fi
done
