#!/bin/sh
# Re-runs every claimed quick check on the unchanged tree so that the committed evidence files describe it.
cd /verif || exit 2
if [ -n "$(git -C /repo status --porcelain)" ]; then echo "refusing: /repo has uncommitted changes"; exit 2; fi
for p in $(python3 -c "import json;print(' '.join(c['property_id'] for c in json.load(open('/verif/MANIFEST.json'))['checks']))"); do
  ./check $p quick | tail -1
done
