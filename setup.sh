#!/bin/sh
# Build the verifier from files on disk only (offline).
set -e
cd /verif/govc
export GOFLAGS=-mod=mod GOPROXY=off
unset GOSUMDB GOTOOLCHAIN 2>/dev/null || true
mkdir -p /verif/bin
go build -o /verif/bin/govc .
